"""Query plans: which solver queries decide which property at which tier.  See DESIGN.md sections 3 and 4."""

PROPERTIES = ['C%02d' % i for i in range(1, 21)]

ESZ = {'B': 1, 'W': 4, 'T3': 3, 'R': 2, 'X': 8, 'Y': 8}

def vec_cfg(kind, n, e, ak=0, s='uint8_t', cls=2, faults=None, cmax=None, count=None, extra=None):
    d = {'VF_KIND': kind, 'VF_N': n, 'VF_E': e, 'VF_AK': ak, 'VF_S': s, 'VF_CLS': cls}
    ledger = e in ('R', 'X', 'Y')
    if kind == 2: cmax = n
    elif cmax is None: cmax = (3 if kind == 0 else n + 1) if ledger else n + 3
    if count is None: count = 2 if ledger else 3
    d['VF_CMAX'] = cmax; d['VF_COUNT_MAX'] = count; d['VF_MAXM'] = cmax + count + 1
    if ledger: d['VF_NID'] = 24
    if faults: d['VF_FAULTS'] = faults
    if extra: d.update(extra)
    return d

def cfg_name(d):
    k = {0: 'vec', 1: 'sv%s' % d['VF_N'], 2: 'fcv%s' % d['VF_N']}[d['VF_KIND']]
    a = {0: 'LA', 1: 'SA', 2: 'RA'}[d['VF_AK']]
    c = {0: 'I', 1: 'H', 2: 'A'}[d['VF_CLS']]
    s = d['VF_S'].replace('uint', 'u').replace('int', 'i').replace('_t', '')
    return '%s_%s_%s_%s_%s%s' % (k, d['VF_E'], a, s, c, ('_f%s' % d['VF_FAULTS']) if d.get('VF_FAULTS') else '')

def arena_for(d, slots=None):
    n = d['VF_N']; cmax = d.get('VF_CMAX', n + 3)
    need = max((3 * cmax + 1) // 2, cmax + d.get('VF_COUNT_MAX', 3)) + 1
    sz = (need * ESZ[d['VF_E']] + 15) // 16 * 16
    return (slots or 4, max(sz, 16))

VEC_OPS_UNARY = ['push_back_copy', 'push_back_move', 'emplace_back', 'pop_back', 'pop_back_val', 'insert_one_copy', 'insert_one_move', 'emplace',
                 'insert_n', 'insert_range_ptr', 'insert_range_fwd', 'insert_range_bid', 'append_range_ptr', 'append_range_fwd',
                 'assign_range_ptr', 'assign_range_fwd', 'insert_range_input', 'append_range_input', 'assign_range_input', 'insert_il',
                 'erase_one', 'erase_range', 'clear', 'resize', 'resize_val', 'assign_n', 'assign_il', 'reserve', 'shrink_to_fit',
                 'append_n', 'append_n_val', 'copy_ctor', 'move_ctor', 'self_copy_assign', 'access']
VEC_OPS_CTOR = ['ctor_default', 'ctor_n', 'ctor_n_val', 'ctor_range', 'ctor_range_input', 'ctor_il']
VEC_OPS_BINARY = ['copy_assign', 'move_assign', 'swap_member', 'compare']

QUICK_TRIM = False
NEEDS_NONEMPTY = ('pop_back', 'pop_back_val', 'erase_one') + tuple('alias_' + x for x in ('push_back', 'emplace_back', 'insert_one', 'emplace', 'insert_n', 'resize', 'assign_n', 'append_n'))

def vec_queries(Query, ops, cfgs, timeout=300, unwind=None):
    qs = []
    for d in cfgs:
        for op in ops:
            if d['VF_KIND'] == 0 and d['VF_CLS'] == 0 and op in NEEDS_NONEMPTY: continue     # an amc::vector without storage is empty
            if d['VF_KIND'] == 0 and d['VF_E'] in ('R', 'X', 'Y') and (op.startswith('ctor_') or d['VF_CLS'] != 1): continue   # growth of an EMPTY amc::vector of ledger elements (null storage) needs 12-45 GB: not decided, outside the claim
            if QUICK_TRIM and d['VF_E'] in ('R', 'X', 'Y') and op in ('insert_range_ptr', 'insert_range_bid'): continue   # same path as insert_range_fwd for non-trivial elements; kept in the thorough tier
            if 'input' in op or d['VF_E'] in ('R', 'X', 'Y'): timeout = max(timeout, 900)
            qs.append(Query('%s.%s' % (op, cfg_name(d)), 'vec_ops.cpp', 'h_' + op, defs=d, arena=arena_for(d), unwind=unwind or d['VF_MAXM'] + 2, timeout=timeout,
                            mem_gb=(5 if d['VF_E'] in ('R', 'X', 'Y') else 3) * (4 if op == 'insert_range_input' else 2 if ('input' in op or (d['VF_E'] in ('R', 'X', 'Y') and op.startswith(('insert_n', 'insert_range', 'insert_il', 'alias_insert_n')))) else 1),
                            optional_reach=(2,) if (op in ('shrink_to_fit', 'reserve') or (op.startswith('alias_') and d['VF_KIND'] == 2)) else (),   # a FixedCapacityVector never reallocates
                            symbolic='state class (inline/heap), size, capacity, element values, position, count, value',
                            bounds=dict(N=d['VF_N'], size_max=d.get('VF_CMAX', d['VF_N'] + 3), capacity_max=d.get('VF_CMAX', d['VF_N'] + 3), count_max=d.get('VF_COUNT_MAX', 3), values='8-bit')))
    return qs

FS_OPS = ['insert', 'emplace', 'insert_hint', 'erase_key', 'erase_pos', 'erase_range', 'clear', 'lookup', 'insert_node', 'extract',
          'merge_same', 'swap', 'copy_move', 'compare']
FS_OPS_SORT = ['insert_range', 'from_vector', 'ctor_range']     # bulk paths through std::sort / std::inplace_merge

def fs_cfg(vec=0, n=2, cmp=2, d=0, sh=0, cls=2, keys=8, mx=4, stub=False, rng=2, form=None, il=False):
    c = {'FS_VEC': vec, 'FS_N': n, 'FS_CMP': cmp, 'FS_DIR': d, 'FS_SHIFT': sh, 'FS_CLS': cls, 'FS_KEYS': keys, 'FS_MAX': mx, 'FS_RANGE': rng}
    if stub: c['FS_STUBSORT'] = ''
    if form is not None: c['FS_FORM'] = form
    if il: c['FS_IL'] = ''
    return c

def fs_name(c):
    v = {0: 'vec', 1: 'sv%d' % c['FS_N'], 2: 'fcv%d' % c['FS_N']}[c['FS_VEC']]
    cm = {0: 'less', 1: 'greater', 2: 'st%d%d' % (c['FS_DIR'], c['FS_SHIFT']), 3: 'transp'}[c['FS_CMP']]
    return '%s_%s_%s_k%d_m%d%s%s%s' % (v, cm, 'IHA'[c['FS_CLS']], c['FS_KEYS'], c['FS_MAX'], '_stub' if 'FS_STUBSORT' in c else '',
                                    '_f%d' % c['FS_FORM'] if 'FS_FORM' in c else '', '_il' if 'FS_IL' in c else '')

def fs_queries(Query, ops, cfgs, timeout=400, unwind=None, mem_gb=4):
    qs = []
    for c in cfgs:
        for op in ops:
            if op == 'lookup_transparent' and c['FS_CMP'] != 3: continue
            qs.append(Query('fs_%s.%s' % (op, fs_name(c)), 'flatset_ops.cpp', 'h_' + op, defs=c, arena=(4, 16), unwind=unwind or (c['FS_MAX'] + c['FS_RANGE'] + 3), timeout=timeout, mem_gb=mem_gb,
                            symbolic='underlying vector state class, sorted content (keys), key / hint / range contents, node presence',
                            bounds=dict(elements_max=c['FS_MAX'], key_domain=c['FS_KEYS'], range_max=3, comparator=fs_name(c).split('_')[1],
                                        sort_and_inplace_merge='contract stub (stable insertion sort)' if 'FS_STUBSORT' in c else 'real libstdc++')))
    return qs

ALL_OPS = VEC_OPS_UNARY + VEC_OPS_CTOR + VEC_OPS_BINARY
INPUT_OPS = [o for o in ALL_OPS if 'input' in o]
NONINPUT_OPS = [o for o in ALL_OPS if 'input' not in o]
MUTATING = [o for o in NONINPUT_OPS if o not in ('access', 'compare', 'ctor_default')]
# operations whose code path depends on the element traits (relocatable or not) or that move elements around
TRAIT_OPS = ['push_back_copy', 'emplace_back', 'pop_back_val', 'insert_one_copy', 'insert_one_move', 'emplace', 'insert_n', 'insert_range_fwd',
             'assign_range_ptr', 'erase_one', 'erase_range', 'resize_val', 'assign_n', 'shrink_to_fit', 'reserve', 'copy_ctor', 'move_ctor',
             'copy_assign', 'move_assign', 'swap_member', 'ctor_range']

Y_OPS = ['insert_n', 'insert_range_ptr', 'insert_range_fwd', 'insert_il', 'insert_one_copy', 'emplace', 'erase_range', 'assign_n', 'assign_range_fwd', 'resize_val']

def input_cfg(d):
    d = dict(d); d['VF_COUNT_MAX'] = 2; d['VF_MAXM'] = d['VF_CMAX'] + 3
    return d

def vec_plan(Query, pid, tier):
    q = []
    sv2B = vec_cfg(1, 2, 'B')
    if tier == 'quick':
        if pid == 'C01':
            q += vec_queries(Query, NONINPUT_OPS, [sv2B, vec_cfg(0, 0, 'B', s='uint32_t'), vec_cfg(2, 3, 'R')])
            q += vec_queries(Query, INPUT_OPS, [input_cfg(vec_cfg(1, 2, 'B', cls=0)), input_cfg(vec_cfg(1, 2, 'B', cls=1, cmax=3))])
            q += vec_queries(Query, TRAIT_OPS, [vec_cfg(1, 2, 'X', ak=2, cls=0), vec_cfg(1, 2, 'X', ak=2, cls=1)])
            q += vec_queries(Query, ALIAS_OPS, [sv2B])      # self-referential arguments are ordinary histories too (see C10 for the full matrix)
            q += vec_queries(Query, Y_OPS, [vec_cfg(1, 2, 'Y', ak=1, cls=0, cmax=4, count=3), vec_cfg(1, 2, 'Y', ak=1, cls=1, cmax=4, count=3)])   # non-relocatable with nothrow copies: shift-and-fill paths
        elif pid == 'C02':
            q += vec_queries(Query, MUTATING, [vec_cfg(1, 2, 'X', ak=2, cls=0), vec_cfg(1, 2, 'X', ak=2, cls=1), vec_cfg(1, 3, 'R', ak=0)])
            q += vec_queries(Query, [o for o in TRAIT_OPS if not o.startswith('insert_range')], [vec_cfg(2, 3, 'X'), vec_cfg(0, 0, 'X', ak=1, s='uint8_t', cls=1)])
            q += vec_queries(Query, Y_OPS, [vec_cfg(1, 2, 'Y', ak=1, cls=0, cmax=4, count=3), vec_cfg(1, 2, 'Y', ak=1, cls=1, cmax=4, count=3), vec_cfg(2, 4, 'Y')])
        elif pid == 'C05':
            q += vec_queries(Query, NONINPUT_OPS, [vec_cfg(1, 2, 'B', cls=0), vec_cfg(1, 3, 'R', cls=0), vec_cfg(2, 3, 'B')])
            q += vec_queries(Query, VEC_OPS_BINARY + ['copy_ctor', 'move_ctor', 'shrink_to_fit', 'reserve'], [sv2B])
            q += vec_queries(Query, TRAIT_OPS, [vec_cfg(1, 2, 'X', ak=2, cls=0)])
        elif pid == 'C06':
            q += vec_queries(Query, MUTATING, [vec_cfg(1, 2, 'B', ak=0), vec_cfg(1, 2, 'B', ak=1, cls=1), vec_cfg(0, 0, 'B', ak=2, s='uint32_t')])
            q += vec_queries(Query, TRAIT_OPS, [vec_cfg(1, 2, 'X', ak=2, cls=1), vec_cfg(1, 3, 'R', ak=2, cls=1)])
        elif pid == 'C07':
            q += vec_queries(Query, NONINPUT_OPS, [sv2B, vec_cfg(0, 0, 'B', s='uint32_t')])
            q += vec_queries(Query, TRAIT_OPS, [vec_cfg(1, 2, 'X', ak=2, cls=0), vec_cfg(1, 2, 'X', ak=2, cls=1), vec_cfg(1, 3, 'R', ak=0)])
    else:
        cfgs = [sv2B, vec_cfg(0, 0, 'B', s='uint32_t'), vec_cfg(2, 3, 'R'), vec_cfg(2, 3, 'B'), vec_cfg(2, 3, 'X'),
                vec_cfg(1, 2, 'X', ak=2, cls=0), vec_cfg(1, 2, 'X', ak=2, cls=1), vec_cfg(1, 3, 'R', ak=0), vec_cfg(1, 3, 'R', ak=2, cls=1),
                vec_cfg(0, 0, 'X', ak=1, s='uint32_t', cls=1), vec_cfg(0, 0, 'R', ak=2, s='uint16_t', cls=1),
                vec_cfg(1, 4, 'B', ak=1, s='uint16_t'), vec_cfg(1, 3, 'W', ak=2, s='int32_t'), vec_cfg(1, 3, 'T3', ak=0, s='int8_t'),
                vec_cfg(1, 2, 'B', ak=2, s='uint64_t'), vec_cfg(0, 0, 'T3', ak=1, s='uint8_t'), vec_cfg(1, 1, 'X', ak=1, cls=2), vec_cfg(2, 4, 'W')]
        q += vec_queries(Query, NONINPUT_OPS, cfgs, timeout=900)
        q += vec_queries(Query, INPUT_OPS, [input_cfg(vec_cfg(1, 2, 'B', cls=0)), input_cfg(vec_cfg(1, 2, 'B', cls=1, cmax=3)),
                                            input_cfg(vec_cfg(0, 0, 'B', s='uint32_t', cmax=3)), input_cfg(vec_cfg(2, 3, 'R')),
                                            input_cfg(vec_cfg(1, 2, 'X', ak=2, cls=0))], timeout=900)
    return q

ALIAS_OPS = ['alias_push_back', 'alias_emplace_back', 'alias_insert_one', 'alias_emplace', 'alias_insert_n', 'alias_resize', 'alias_assign_n', 'alias_append_n']
LIMIT_OPS = ['lim_push_back', 'lim_insert_one', 'lim_insert_n', 'lim_insert_range', 'lim_append_n']

def limit_queries(Query, tier):
    qs = []
    cfgs = [(1, 'uint8_t'), (0, 'uint8_t')] + ([] if tier == 'quick' else [(1, 'int8_t'), (0, 'int8_t')])
    for kind, s in cfgs:
        d = {'VF_KIND': kind, 'VF_S': s}
        nm = '%s_B_LA_%s' % ('sv4' if kind else 'vec', s.replace('uint', 'u').replace('int', 'i').replace('_t', ''))
        for op in LIMIT_OPS:
            qs.append(Query('%s.%s' % (op, nm), 'vec_limits.cpp', 'h_' + op, defs=d, arena=(2, 256), unwind=3, timeout=600, mem_gb=4, unwind_cap=12,
                            symbolic='size and capacity within 5 of the size_type maximum, arbitrary contents, position, count, value',
                            bounds=dict(size_type=s, size='max-5..max', note='copy loops behind the capacity check are proved unreachable by their unwinding assertions (unwind 3)')))
    return qs

def swap2_queries(Query, tier):
    # (kind, N, size_type, allocator kind)
    SV2 = (1, 2, 'uint8_t', 0); SV3 = (1, 3, 'uint32_t', 0); VEC = (0, 0, 'uint32_t', 0); VEC8 = (0, 0, 'uint8_t', 0); FCV = (2, 3, 'uint8_t', 0); VECSA = (0, 0, 'uint32_t', 1)
    names = {SV2: 'sv2u8', SV3: 'sv3u32', VEC: 'vecu32', VEC8: 'vecu8', FCV: 'fcv3', VECSA: 'vecSAu32'}
    if tier == 'quick':
        pairs = [(SV2, VEC, 'B'), (VEC, SV2, 'B'), (SV2, SV3, 'B'), (SV2, FCV, 'B'), (FCV, VEC, 'B'), (VEC8, VEC, 'B'), (SV2, VECSA, 'B'), (SV2, VEC, 'X')]
    else:
        fl = [SV2, SV3, VEC, VEC8, FCV, VECSA]
        pairs = [(a, b, 'B') for a in fl for b in fl if a != b] + [(SV2, VEC, 'X'), (VEC, SV2, 'X'), (SV2, SV3, 'X'), (SV2, FCV, 'X'), (FCV, SV3, 'X'), (SV2, SV3, 'R'), (FCV, VEC, 'R')]
    qs = []
    for a, b, e in pairs:
        cmax = 4 if e == 'B' else 2
        def maxsize(f, cls): return f[1] if f[0] == 2 or (f[0] == 1 and cls == 0) else (0 if cls == 0 else cmax)
        for ca in ((0, 1) if a[0] != 2 else (0,)):
            for cb in ((0, 1) if b[0] != 2 else (0,)):
                d = {'VF_E': e, 'A_KIND': a[0], 'A_N': a[1], 'A_S': a[2], 'A_AK': a[3], 'A_CLS': ca, 'B_KIND': b[0], 'B_N': b[1], 'B_S': b[2], 'B_AK': b[3], 'B_CLS': cb,
                     'VF_CMAX': cmax, 'VF_MAXM': cmax + 2}
                if e != 'B': d['VF_NID'] = 20
                sz = (((3 * cmax + 1) // 2 + 2) * ESZ[e] + 15) // 16 * 16
                impossible = (a[0] == 2 and maxsize(b, cb) > a[1]) or (b[0] == 2 and maxsize(a, ca) > b[1])
                qs.append(Query('swap2.%s_%s_%s_%s%s' % (names[a], names[b], e, 'IH'[ca], 'IH'[cb]), 'vec_swap2.cpp', 'h_swap2', defs=d, arena=(4, sz), unwind=cmax + 4, timeout=600,
                                mem_gb=6 if e != 'B' else 3, symbolic='both operands: sizes, capacities, contents (state class fixed per query)',
                                optional_reach=() if impossible else (2,),
                                bounds=dict(size_max=cmax, capacity_max=cmax, impossible_exchange_reachable=impossible)))
    return qs

SS_OPS = ['insert', 'lookup', 'erase_key', 'erase_it', 'erase_loop', 'clear', 'insert_range', 'node', 'copy_move', 'merge']
SS_BIN = ['swap', 'compare']

def ss_cfg(n=2, st=0, cmp=0, cls=0, cls2=None, lmax=None, keys=8):
    c = {'SS_N': n, 'SS_SET': st, 'SS_CMP': cmp, 'SS_CLS': cls, 'SS_KEYS': keys, 'SS_LMAX': lmax if lmax is not None else n + 2}
    if st == 0: c['SS_STUBSORT'] = ''     # FlatSet's bulk insert (SmallSet::grow) through the sort/inplace_merge contract stubs
    if cls2 is not None: c['SS_CLS2'] = cls2
    return c

def ss_name(c):
    return 'n%d_%s_%s_%s%s_l%d%s' % (c['SS_N'], ['flat', 'stdset'][c['SS_SET']], ['less', 'greater'][c['SS_CMP']], 'IL'[c['SS_CLS']],
                                    'IL'[c['SS_CLS2']] if 'SS_CLS2' in c else '', c['SS_LMAX'], '_f%d' % c['SS_FORM'] if 'SS_FORM' in c else '')

def ss_queries(Query, ops, cfgs, timeout=600, mem_gb=6):
    qs = []
    for c in cfgs:
        for op in ops:
            opt = (2,)
            node_bytes = 48 if c['SS_SET'] else 16
            qs.append(Query('ss_%s.%s' % (op, ss_name(c)), 'smallset_ops.cpp', 'h_' + op, defs=c, arena=(6 if c['SS_SET'] else 4, node_bytes), unwind=c['SS_LMAX'] + 6, timeout=timeout, mem_gb=mem_gb,
                            optional_reach=opt, symbolic='state (inline: any order of pairwise inequivalent keys; large: sorted keys), key, position, range',
                            bounds=dict(N=c['SS_N'], large_max=c['SS_LMAX'], key_domain=c['SS_KEYS'], backing=['FlatSet', 'std::set (red-black primitives stubbed)'][c['SS_SET']])))
    return qs

def smallset_plan(Query, pid, tier):
    quick = tier == 'quick'
    def forms(cfgs, fs):
        out = []
        for c in cfgs:
            for f in fs:
                d = dict(c); d['SS_FORM'] = f; out.append(d)
        return out
    flat = [ss_cfg(2, 0, 0, 0), ss_cfg(2, 0, 0, 1)]
    if not quick: flat += [ss_cfg(3, 0, 1, 0), ss_cfg(3, 0, 1, 1), ss_cfg(1, 0, 0, 0), ss_cfg(1, 0, 0, 1)]
    simple = ['lookup', 'erase_key', 'erase_it', 'erase_range', 'erase_loop', 'clear'] + (['copy_move'] if pid == 'C04' else [])
    q = ss_queries(Query, simple, flat)
    # insert: the inline -> large crossing runs FlatSet's bulk insert: 270-290 s and 11-14 GB per overload on the pinned tree
    q += ss_queries(Query, ['insert'], forms(flat[:2], (0, 2) if quick else (0, 1, 2, 3)) + ([] if quick else forms(flat[2:], (0,))), timeout=1200, mem_gb=14)
    if pid == 'C04':
        q += ss_queries(Query, ['node'], forms(flat[:1], (0,)) if quick else forms(flat[:2], (0, 1, 2, 3)), timeout=1200, mem_gb=8)
        q += ss_queries(Query, ['swap'], [ss_cfg(2, 0, 0, a, b) for a in (0, 1) for b in (0, 1)])
        q += ss_queries(Query, ['compare_eq'], [ss_cfg(2, 0, 0, a, b) for a in (0, 1) for b in (0, 1)], timeout=900)
        q += ss_queries(Query, ['compare'], [ss_cfg(2, 0, 0, 0, 0), ss_cfg(2, 0, 0, 0, 1), ss_cfg(2, 0, 0, 1, 0)] + ([] if quick else [ss_cfg(2, 0, 0, 1, 1)]), timeout=1200, mem_gb=6)
    return q

def flatset_plan(Query, pid, tier):
    quick = tier == 'quick'
    ST = [(0, 0), (1, 0), (0, 1), (1, 1)]      # (direction, coarseness) of the stateful comparator
    hint = []
    for f in (0, 1, 2):
        hint.append(fs_cfg(1, cmp=0, mx=3, form=f))                                     # SmallVector<,2>, std::less
    hint += [fs_cfg(0, cmp=2, d=1, sh=1, mx=3, form=0, cls=1), fs_cfg(0, cmp=2, d=0, sh=1, mx=3, form=2, cls=1), fs_cfg(2, n=8, cmp=1, mx=3, form=1)]
    if not quick:
        hint += [fs_cfg(0, cmp=2, d=d, sh=sh, mx=4, form=f, cls=1) for d, sh in ST for f in (0, 1, 2)] + [fs_cfg(1, n=4, cmp=3, mx=4, form=f) for f in (0, 1, 2)]
    if pid == 'C12':
        return fs_queries(Query, ['insert_hint'], hint, timeout=600 if quick else 1500)
    base = [fs_cfg(0, cmp=2, d=1, sh=1), fs_cfg(1, cmp=0), fs_cfg(2, n=8, cmp=3)]
    if not quick: base += [fs_cfg(0, cmp=2, d=d, sh=sh, mx=5) for d, sh in ST] + [fs_cfg(1, n=4, cmp=1, mx=5), fs_cfg(0, cmp=3, mx=5)]
    simple = [o for o in FS_OPS if o not in ('insert_hint', 'merge_same')]
    if pid == 'C03':
        q = fs_queries(Query, simple, base, timeout=600)
        q += fs_queries(Query, ['lookup_transparent'], [c for c in base if c['FS_CMP'] == 3])
        q += fs_queries(Query, ['insert_hint'], hint[:2] if quick else hint, timeout=600)
        q += fs_queries(Query, ['insert_range'], [fs_cfg(0, cmp=2, d=1, sh=1, stub=True, mx=2, cls=1), fs_cfg(1, cmp=0, stub=True, mx=2, cls=0)] +
                        ([] if quick else [fs_cfg(0, cmp=2, d=0, sh=1, stub=True, mx=2, cls=1, il=True), fs_cfg(2, n=8, cmp=1, stub=True, mx=3)]), timeout=900, mem_gb=8)
        q += fs_queries(Query, ['merge_same'], [fs_cfg(0, cmp=2, d=1, sh=1, mx=1, cls=1), fs_cfg(1, cmp=0, mx=1, cls=0)], timeout=900, mem_gb=10)
        if not quick: q += fs_queries(Query, ['merge_other'], [fs_cfg(1, cmp=0, mx=1, cls=0)], timeout=1800, mem_gb=10)     # 730 s; the amc::vector-backed variant needed > 50 GB
        q += fs_queries(Query, ['ctor_range', 'from_vector'], [fs_cfg(1, cmp=0, stub=True, mx=2, rng=1, cls=0)] + ([] if quick else [fs_cfg(0, cmp=2, d=1, sh=1, stub=True, mx=1, rng=1, cls=1)]), timeout=900, mem_gb=10)
        return q
    if pid == 'C19':
        q = fs_queries(Query, ['lookup', 'insert', 'emplace', 'erase_key'], base[:2] if quick else base, timeout=600)
        q += fs_queries(Query, ['insert_hint'], hint[:3] if quick else hint, timeout=600)
        # discriminating sizes: n concrete per query
        big = [('big_lookup', 32, 0), ('big_erase_key', 32, 0), ('big_insert', 16, 0), ('big_hint', 12, 0)]
        if not quick: big += [('big_lookup', 16, 1), ('big_lookup', 24, 0), ('big_erase_key', 16, 1), ('big_insert', 24, 0), ('big_insert', 12, 1), ('big_hint', 16, 0), ('big_hint', 8, 1)]
        for op, n, vec in big:
            q.append(Query('fs_%s.n%d_%s' % (op, n, ['vec', 'sv4'][vec]), 'flatset_big.cpp', 'h_' + op, defs={'FB_N': n, 'FB_VEC': vec}, arena=(2, (n + 17) // 16 * 16 + 16), unwind=n + 4,
                           timeout=1500, mem_gb=6, symbolic='sorted content of n elements (arbitrary bytes assumed strictly increasing), key, hint',
                           bounds=dict(n=n, note='n concrete: a linear scan needs up to n comparator calls, the bound is 2*ceil(log2(n+1))+4')))
        # SmallSet inline lookups: at most 2N+2 comparator calls
        q += ss_queries(Query, ['lookup'], [ss_cfg(2, 0, 0, 0)] + ([] if quick else [ss_cfg(3, 0, 1, 0), ss_cfg(1, 0, 0, 0)]))
        return q
    return []

def plan(pid, tier, Query):
    global QUICK_TRIM
    QUICK_TRIM = tier == 'quick'
    qs = _plan(pid, tier, Query)
    if tier == 'thorough':
        # queries that did not reach a verdict within their caps when the thorough tier was calibrated on the pinned tree are
        # listed (with the reason) in thorough_skip.json and are outside the thorough claim; nothing is skipped in the quick tier
        import json, os
        try: skip = json.load(open(os.path.join(os.path.dirname(os.path.abspath(__file__)), 'thorough_skip.json')))
        except Exception: skip = {}
        qs = [q for q in qs if q.name not in skip.get(pid, {}) and q.name not in skip.get('*', {})]
    return qs

def _plan(pid, tier, Query):
    quick = tier == 'quick'
    if pid == 'C08':
        fcv = [vec_cfg(2, 3, 'B', extra={'VF_USABLE': ''}), vec_cfg(2, 3, 'X', extra={'VF_USABLE': ''})] if quick else [vec_cfg(2, 3, 'B', extra={'VF_USABLE': ''}), vec_cfg(2, 3, 'X', extra={'VF_USABLE': ''}), vec_cfg(2, 2, 'R', extra={'VF_USABLE': ''}), vec_cfg(2, 4, 'W', extra={'VF_USABLE': ''})]
        grow_ops = ['push_back_copy', 'push_back_move', 'emplace_back', 'insert_one_copy', 'insert_one_move', 'emplace', 'insert_n', 'insert_range_ptr', 'insert_range_fwd',
                    'append_range_ptr', 'assign_range_fwd', 'insert_il', 'resize', 'resize_val', 'assign_n', 'reserve', 'append_n', 'append_n_val', 'access']
        return limit_queries(Query, tier) + vec_queries(Query, grow_ops, fcv) + vec_queries(Query, ['access'], [vec_cfg(1, 2, 'B'), vec_cfg(0, 0, 'B', s='uint32_t')])
    if pid == 'C16':
        qs = []
        base = dict(std='c++17', opt='-O1', ndebug=True, nonstd=True)
        pairs = [('cxx11', dict(std='c++11')), ('cxx14', dict(std='c++14')), ('cxx20', dict(std='c++20')), ('pedantic', dict(nonstd=False)), ('asserts', dict(ndebug=False)), ('O2', dict(opt='-O2')), ('O0', dict(opt='-O0'))]
        OPS = {0: 'insert_n', 1: 'erase', 2: 'resize', 3: 'assign', 4: 'shrink', 5: 'pop_reserve', 6: 'emplace', 7: 'copy_swap'}
        # (container kind, element, operation, fixed number of initial push_backs, configuration pair)
        if quick:
            jobs = [(1, 'B', op, k, nm) for op in (1, 6) for k in (2, 4) for nm in ('cxx11', 'asserts')] + [(1, 'B', 0, 4, nm) for nm in ('cxx11', 'asserts', 'cxx14', 'cxx20', 'pedantic', 'O2')] + \
                   [(1, 'X', 6, 2, 'cxx11'), (1, 'X', 1, 4, 'cxx20'), (0, 'B', 3, 2, 'cxx11'), (0, 'B', 4, 3, 'cxx20'), (3, 'B', 0, 3, 'cxx11'), (3, 'B', 1, 3, 'asserts'), (2, 'B', 0, 2, 'cxx11')]
        else:
            allp = [nm for nm, _ in pairs]
            jobs = [(1, 'B', op, k, nm) for op in range(8) for k in (2, 4) for nm in allp if not (op == 0 and k < 4)] + \
                   [(0, 'B', op, 3, nm) for op in range(8) for nm in ('cxx11', 'cxx20', 'asserts')] + \
                   [(2, 'B', op, 2, nm) for op in range(8) for nm in ('cxx11', 'asserts')] + \
                   [(1, 'X', op, k, 'cxx11') for op in (0, 1, 3, 6) for k in (2, 4)] + \
                   [(3, 'B', op, k, nm) for op in range(4) for k in (1, 3) for nm in ('cxx11', 'cxx20', 'asserts', 'O2')]
        jobs += [(4, 'B', 0, 0, nm) for nm in (('cxx11', 'cxx14') if quick else ('cxx11', 'cxx14', 'cxx20', 'asserts', 'O2'))]      # swap2 at the size_type limit
        alts = dict(pairs)
        for kind, e, op, k, nm in jobs:
            alt = alts[nm]
            d = {'MS_KIND': kind, 'MS_E': e, 'MS_KFIX': k, 'MS_OP': op}
            if e == 'B' and kind != 3: d['MS_LESS'] = ''
            if e == 'X': d['VF_NID'] = 32
            qs.append(Query('miter.%s_%s_%s_k%d.cxx17_vs_%s' % (['vec', 'sv3', 'fcv4', 'flatset', 'swap2lim'][kind], e, (OPS[op] if kind < 3 else ['hint', 'erase', 'lookup', 'copy_swap'][op] if kind == 3 else 'u8_u32'), k, nm),
                            'miter_script.cpp', 'h_script', defs=d, miter=alt,
                            arena=((4, 32 if e == 'B' else 128) if kind != 4 else (2, 272)), unwind=12, timeout=900, mem_gb=6, object_bits=10 if alt.get('opt') == '-O0' else None,
                            extra_cbmc=('-DVF_MITER',), symbolic='values of the initial push_backs, position, count, value (operation and number of pushes fixed per query)',
                            bounds=dict(initial_pushes=k, count_max=3, configurations='c++17 -O1 NDEBUG NONSTD  vs  %s' % alt)))
        return qs
    if pid == 'C20':
        qs = []
        def rq(name, entry, d, **kw):
            qs.append(Query(name, 'race_ops.cpp', entry, defs=d, hooks=('stores',), arena=(4, 16), unwind=10, timeout=600, mem_gb=5,
                            symbolic='container state (class, size, capacity, contents), arguments, choice of mutating operation',
                            bounds=dict(size_max=4, note='every store of the lowered code is checked against the registered shared regions'), **kw))
        for k, nm in ((0, 'vec'), (1, 'sv2'), (2, 'fcv3')):
            for cls in ((0, 1) if k != 2 else (0,)):
                d = {'RC_KIND': k, 'RC_CLS': cls}
                rq('race_const.%s_%s' % (nm, 'IH'[cls]), 'h_vec_const', d)
                rq('race_const_binary.%s_%s' % (nm, 'IH'[cls]), 'h_vec_const_binary', d)
                rq('race_mutate_other.%s_%s' % (nm, 'IH'[cls]), 'h_vec_mutate_other', d)
        rq('race_const.flatset_H', 'h_fs_const', {'RC_KIND': 3, 'RC_CLS': 1})
        rq('race_const.flatset_Z', 'h_fs_const', {'RC_KIND': 3, 'RC_CLS': 0})
        rq('race_const.smallset_inline', 'h_ss_const', {'RC_KIND': 4})
        return qs
    if pid == 'C15':
        qs = []
        stds = ['c++11', 'c++14', 'c++17', 'c++20']
        ops = ['uninitialized_copy', 'uninitialized_move', 'uninitialized_relocate', 'relocate_at', 'destroy', 'construct_value', 'construct_at']
        combos = [('X', 0, 4), ('B', 0, None), ('R', 1, 4), ('T3', 2, None)] if quick else \
                 [(e, it, (4 if e in ('R', 'X') else None)) for e in ('B', 'T3', 'R', 'X') for it in (0, 1, 2)] + [('X', 3, 4), ('R', 3, None), ('B', 3, None)]
        for std in stds:
            for e, it, f in combos:
                d = {'MA_E': e, 'MA_IT': it, 'MA_MAX': 4}
                if e in ('R', 'X'): d['VF_NID'] = 24
                if f: d['VF_FAULTS'] = f
                for op in ops:
                    if it == 3 and op != 'uninitialized_copy': continue
                    opt = (2,) if not f or it == 3 or op in ('uninitialized_move', 'uninitialized_relocate', 'relocate_at', 'destroy') else ()   # move_iterator: moves are noexcept, no throw to reach
                    qs.append(Query('ma_%s.%s_it%d_%s%s' % (op, e, it, std.replace('c++', 'cxx'), '_f' if f else ''), 'mem_algos.cpp', 'h_' + op, defs=d, std=std, arena=(2, 16),
                                    unwind=7, timeout=300, mem_gb=3, optional_reach=opt,
                                    symbolic='length 0..4, element values, form (range / count), fault index', bounds=dict(length_max=4, faults_max=f or 0, standard=std)))
        return qs
    if pid == 'C18':
        qs = []
        for st in ['u8', 'i8', 'u16', 'i16', 'u32', 'i32', 'u64']:
            qs.append(Query('next_capacity_%s' % st, 'vec_growth.cpp', 'h_next_capacity_%s' % st, defs={}, arena=(2, 16), unwind=3, timeout=300,
                            optional_reach=(3,) if st == 'u64' else (), symbolic='old capacity, needed size (full width), exact flag', bounds=dict(width='full %s' % st)))
        loops = [(0, 0, 'B', 0, 64), (1, 0, 'B', 0, 64), (0, 1, 'B', 0, 64), (1, 0, 'B', 1, 10), (0, 0, 'B', 2, 48), (1, 0, 'B', 3, 48), (1, 1, 'X', 0, 16)]
        if not quick: loops += [(0, 0, 'B', 0, 128), (1, 1, 'B', 1, 12), (0, 1, 'X', 0, 24), (1, 0, 'R', 0, 32), (0, 1, 'R', 2, 32), (1, 0, 'B', 2, 96), (0, 1, 'B', 3, 64)]
        for kind, ak, e, start, nmax in loops:
            d = {'GR_KIND': kind, 'GR_AK': ak, 'GR_E': e, 'GR_START': min(start, 2), 'GR_NMAX': nmax}
            if start >= 2: d['GR_RESERVE'] = {2: 5, 3: 8}[start]
            if e != 'B': d['VF_NID'] = 120
            cap = (3 * (nmax + 8)) // 2 + 2
            qs.append(Query('append_loop.%s_%s_%s_s%d_n%d' % ('sv2' if kind else 'vec', ['LA', 'SA'][ak], e, start, nmax), 'vec_growth.cpp', 'h_append_loop', defs=d,
                            arena=(3, (cap * ESZ[e] + 15) // 16 * 16), unwind=nmax + 2, timeout=900, mem_gb=6,
                            symbolic='number of push_backs n, start state', bounds=dict(n_max=nmax, start=['empty', 'symbolic inline/heap state', 'after reserve(5)', 'after reserve(8)'][start])))
        qs += vec_queries(Query, ['reserve', 'shrink_to_fit'], [vec_cfg(1, 2, 'B'), vec_cfg(0, 0, 'B', s='uint32_t'), vec_cfg(1, 2, 'X', ak=2, cls=1, cmax=4), vec_cfg(1, 3, 'R', ak=0, cmax=5)])
        # growth factor of every growing step (bulk growth with size < capacity included)
        qs += vec_queries(Query, ['insert_n', 'append_n_val', 'resize', 'assign_n', 'insert_range_fwd', 'push_back_copy', 'emplace_back'], [vec_cfg(1, 2, 'B', cls=1, cmax=6), vec_cfg(0, 0, 'B', s='uint32_t', cls=1, cmax=6)])
        return qs
    if pid == 'C09':
        F = 5
        fault_ops = ['push_back_copy', 'emplace_back', 'insert_one_copy', 'emplace', 'insert_n', 'insert_range_fwd', 'append_range_ptr', 'assign_range_fwd',
                     'resize', 'resize_val', 'assign_n', 'reserve', 'shrink_to_fit', 'append_n', 'append_n_val', 'copy_ctor', 'copy_assign']
        cfgs = [vec_cfg(1, 2, 'X', ak=2, cls=0, faults=F), vec_cfg(1, 2, 'X', ak=2, cls=1, faults=F)]
        if not quick:
            cfgs += [vec_cfg(1, 3, 'R', ak=0, faults=F), vec_cfg(0, 0, 'X', ak=1, s='uint32_t', cls=1, faults=F), vec_cfg(2, 3, 'X', faults=F), vec_cfg(0, 0, 'R', ak=2, s='uint32_t', cls=1, faults=F)]
            fault_ops += ['push_back_move', 'insert_one_move', 'insert_range_ptr', 'append_range_fwd', 'assign_range_ptr', 'insert_il', 'assign_il']
        return vec_queries(Query, fault_ops, cfgs, timeout=900)
    if pid == 'C10':
        cfgs = [vec_cfg(1, 2, 'B'), vec_cfg(1, 2, 'X', ak=2, cls=0), vec_cfg(1, 2, 'X', ak=2, cls=1), vec_cfg(0, 0, 'R', s='uint8_t', cls=1)]
        if not quick: cfgs += [vec_cfg(0, 0, 'B', s='uint32_t'), vec_cfg(2, 3, 'X'), vec_cfg(2, 3, 'B'), vec_cfg(1, 3, 'R', ak=0), vec_cfg(1, 3, 'T3', ak=1, s='uint16_t'), vec_cfg(0, 0, 'X', ak=1, s='uint32_t', cls=1)]
        return vec_queries(Query, ALIAS_OPS, cfgs, timeout=600)
    if pid == 'C13':
        lim = {'SW_LIMIT': '', 'VF_E': 'B', 'A_KIND': 0, 'A_N': 0, 'A_S': 'uint8_t', 'A_AK': 0, 'A_CLS': 1, 'B_KIND': 0, 'B_N': 0, 'B_S': 'uint32_t', 'B_AK': 0, 'B_CLS': 1, 'VF_CMAX': 4, 'VF_MAXM': 6}
        return swap2_queries(Query, tier) + [Query('swap2_limit.vecu8_vecu32_B', 'vec_swap2.cpp', 'h_swap2_limit', defs=lim, arena=(2, 272), unwind=6, timeout=900, mem_gb=4,
                                                   symbolic='8-bit vector: capacity <= 6; 32-bit vector: capacity 250..262, size within 4 of it, arbitrary contents; direction of the call',
                                                   bounds=dict(note='capacities around the 8-bit maximum: the exchange must throw exactly when the 32-bit capacity exceeds 255'))]
    if pid == 'C14':
        R = {'VF_RELOC': ''}
        cfgs = [vec_cfg(0, 0, 'X', ak=1, s='uint32_t', cls=1, extra=R), vec_cfg(1, 2, 'B', extra=R), vec_cfg(1, 3, 'R', extra=R), vec_cfg(2, 3, 'R', extra=R)]
        ops = ['push_back_copy', 'insert_n', 'erase_one', 'pop_back', 'reserve', 'shrink_to_fit', 'copy_ctor', 'move_ctor', 'clear', 'access', 'resize', 'assign_n']
        if not quick:
            cfgs += [vec_cfg(0, 0, 'B', s='uint32_t', extra=R), vec_cfg(2, 3, 'B', extra=R), vec_cfg(1, 4, 'W', ak=1, s='uint16_t', extra=R)]
            ops = NONINPUT_OPS
        qs = vec_queries(Query, ops, cfgs, timeout=600)
        for q in qs: q.unwindset.update({'vf_memcpy.0': 48, 'vf_memset.0': 48}); q.name = 'reloc_' + q.name
        return qs
    if tier == 'fsurvey':
        return (fs_queries(Query, ['insert_hint'], [fs_cfg(1, cmp=0, mx=3, form=f) for f in (0, 1, 2)] + [fs_cfg(0, cmp=2, d=1, sh=1, mx=3, form=0, cls=1)]) +
                fs_queries(Query, ['merge_same'], [fs_cfg(0, cmp=2, d=1, sh=1, mx=2), fs_cfg(1, cmp=0, mx=2, cls=0)], mem_gb=10) +
                fs_queries(Query, FS_OPS_SORT, [fs_cfg(0, cmp=2, d=1, sh=1, stub=True, mx=2, cls=1), fs_cfg(1, cmp=0, stub=True, mx=2, cls=0), fs_cfg(1, cmp=0, mx=1, rng=1, cls=0)], mem_gb=8))
    if pid in ('C04', 'C11'):
        return smallset_plan(Query, pid, tier)
    if pid in ('C03', 'C12', 'C19'):
        return flatset_plan(Query, pid, tier)
    if pid in ('C01', 'C02', 'C05', 'C06', 'C07'):
        return vec_plan(Query, pid, tier)
    return []
