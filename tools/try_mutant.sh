#!/bin/sh
# usage: tools/try_mutant.sh <patch.diff> <property id> [more ids...]
# Applies a seeded change to /repo, runs the quick checks of the given properties, and always restores /repo.
patch="$1"; shift
cd /verif || exit 2
git -C /repo diff --quiet || { echo "/repo has local changes"; exit 2; }
git -C /repo apply "$patch" || { echo "patch does not apply"; exit 2; }
rc=0
for p in "$@"; do
  ./check "$p" --tier quick 2>&1 | grep -E "^(VIOLATION|KNOWN-FINDING|C[0-9]+ tier|  INCONCLUSIVE|  UNCONFIRMED)" | cut -c1-300
done
git -C /repo checkout -- .
git -C /repo status --short | grep -v "_build" | head -3
