// C16: the same program in two configurations (language standard / pedantic mode / assertions / optimisation level).
// Everything observable is appended to a transcript with vf_obs(); the driver translates both configurations into one C file
// and CBMC proves the transcripts identical for every input within the bounds.  Uses the standard API only, so that it also
// compiles without AMC_NONSTD_FEATURES.
// -D: MS_E (B | X), MS_KIND (0 vector, 1 SmallVector<E,3>, 2 FixedCapacityVector<E,4>, 3 FlatSet<B>), MS_K (max initial pushes)
#ifndef MS_E
#define MS_E B
#endif
#ifndef MS_KIND
#define MS_KIND 1
#endif
#ifndef MS_K
#define MS_K 4
#endif
#define VF_MAXM 10
#include "vec_common.hpp"
#include <amc/flatset.hpp>
#include <amc/memory.hpp>
typedef vf::MS_E E;
typedef amc::BasicAllocatorWrapper<E, vf::LedgerBasic> A;
using vf::nd8; using vf::Elem;
#if MS_KIND == 0
typedef amc::vector<E, A, uint32_t> V;
#elif MS_KIND == 1
typedef amc::SmallVector<E, 3, A, uint8_t> V;
#elif MS_KIND == 2
typedef amc::FixedCapacityVector<E, 4> V;
#endif
static void obs_exc(int k) { vf_obs(0xE0000000u | static_cast<uint32_t>(k)); }

// Every observation sits in straight-line code with a fixed position in the transcript (values are padded, exception kinds and
// allocator statistics are observed after the fact): the transcript index stays concrete, which keeps the miter tractable.
#if MS_KIND == 4
// swap2 between vectors of different size_type with capacities around the 8-bit maximum (states built directly, identically in
// both configurations): the size_type overflow check of swap_sizetype has a separate pre-C++17 implementation
#ifdef AMC_NONSTD_FEATURES
typedef amc::vector<vf::B, amc::BasicAllocatorWrapper<vf::B, vf::LedgerBasic>, uint8_t> V8;
typedef amc::vector<vf::B, amc::BasicAllocatorWrapper<vf::B, vf::LedgerBasic>, uint32_t> V32;
typedef amc::BasicAllocatorWrapper<vf::B, vf::LedgerBasic> AB;
VF_ACCESS_STD(Acc8, vf::B, AB, uint8_t)
VF_ACCESS_STD(Acc32, vf::B, AB, uint32_t)
extern "C" void h_script(void) {
  {
    V8 a; V32 b;
    uint8_t c8 = nd8(); vf_assume(c8 >= 252); uint8_t s8 = nd8(3);
    uint16_t c32 = static_cast<uint16_t>(250 + nd8(8)); uint8_t s32 = nd8(3);
    vf::B *p8 = AB().allocate(c8); vf::B *p32 = AB().allocate(c32);
    for (unsigned i = 0; i < 3; ++i) { p8[i] = nd8(); p32[i] = nd8(); }
    vf::Acc8::capa(a) = c8; vf::Acc8::size(a) = s8; vf::Acc8::setDyn(a, p8);
    vf::Acc32::capa(b) = c32; vf::Acc32::size(b) = s32; vf::Acc32::setDyn(b, p32);
    uint8_t dir = nd8(1); int exc = 0;
    try { if (dir) a.swap2(b); else b.swap2(a); } catch (const std::overflow_error &) { exc = 2; } catch (const std::out_of_range &) { exc = 3; }
    obs_exc(exc);
    vf_obs(static_cast<uint32_t>(a.size())); vf_obs(static_cast<uint32_t>(a.capacity())); vf_obs(static_cast<uint32_t>(b.size())); vf_obs(static_cast<uint32_t>(b.capacity()));
    for (unsigned i = 0; i < 3; ++i) { vf_obs(i < a.size() ? static_cast<uint32_t>(a[static_cast<uint8_t>(i)]) : 0xFFFFu); vf_obs(i < b.size() ? static_cast<uint32_t>(b[i]) : 0xFFFFu); }
  }
  vf_obs(0x5A000000u | vf::g_alloc_calls); vf_obs(vf::blocks_live()); vf_obs(vf::g_abad);
  vf_reach(1);
}
#endif
#elif MS_KIND <= 2
static void dump(const V &v) {
  vf_obs(0x51000000u | static_cast<uint32_t>(v.size())); vf_obs(0x52000000u | static_cast<uint32_t>(v.capacity())); vf_obs(v.empty());
  for (unsigned i = 0; i < VF_MAXM; ++i) vf_obs(i < v.size() ? static_cast<uint32_t>(Elem<E>::val(v[static_cast<V::size_type>(i)])) : 0xFFFFu);
}
extern "C" void h_script(void) {
  {
    V v;
#ifdef MS_KFIX
    const uint8_t k = MS_KFIX;          // partitioned: the number of initial push_backs is fixed per query, their values are symbolic
#else
    uint8_t k = nd8(MS_K);
#endif
    for (unsigned i = 0; i < k; ++i) v.push_back(Elem<E>::make(nd8()));
    dump(v);
#ifdef MS_OP
    const uint8_t op = MS_OP;          // partitioned: one query per operation (a symbolic choice of operation did not finish)
#else
    uint8_t op = nd8(7);
#endif
    uint8_t pos = nd8(static_cast<uint8_t>(v.size())), cnt = nd8(3), x = nd8();
    uint32_t ret = 0xFFFFFFFFu, ret2 = 0xFFFFFFFFu; int exc = 0;
    try {
      if (op == 0) { V::iterator r = v.insert(v.begin() + pos, static_cast<V::size_type>(cnt), Elem<E>::make(x)); ret = static_cast<uint32_t>(r - v.begin()); }
      else if (op == 1) { uint8_t last = nd8(static_cast<uint8_t>(v.size())); vf_assume(pos <= last); V::iterator r = v.erase(v.begin() + pos, v.begin() + last); ret = static_cast<uint32_t>(r - v.begin()); }
      else if (op == 2) v.resize(static_cast<V::size_type>(cnt + pos));
      else if (op == 3) v.assign(static_cast<V::size_type>(cnt), Elem<E>::make(x));
      else if (op == 4) v.shrink_to_fit();
      else if (op == 5) { if (!v.empty()) v.pop_back(); v.reserve(static_cast<V::size_type>(cnt + 2)); }
      else if (op == 6) { V::iterator r = v.emplace(v.begin() + pos, Elem<E>::arg(x)); ret = static_cast<uint32_t>(r - v.begin()); }
#ifdef MS_LESS
      else { V w(v); w.push_back(Elem<E>::make(x)); ret = (w == v); ret2 = (v < w); v.swap(w); }
#else
      else { V w(v); w.push_back(Elem<E>::make(x)); ret = (w == v); v.swap(w); }   // (no operator<=> for the ledger element types)
#endif
    } catch (const std::out_of_range &) { exc = 3; } catch (const std::overflow_error &) { exc = 2; }
    vf_obs(ret); vf_obs(ret2); obs_exc(exc);
    dump(v);
    bool threw = false; uint32_t got = 0xFFFFu;
    try { got = Elem<E>::val(v.at(static_cast<V::size_type>(pos))); } catch (const std::out_of_range &) { threw = true; }
    vf_obs(got); vf_obs(threw);
  }
  // allocator traffic: number of requests / releases and bytes given up are part of the observable behaviour
  vf_obs(0x5A000000u | vf::g_alloc_calls); vf_obs(0x5B000000u | vf::g_dealloc_calls); vf_obs(vf::g_released_bytes);
  vf_obs(0x5F000000u | vf::alive_count()); vf_obs(vf::blocks_live()); vf_obs(vf::g_bad); vf_obs(vf::g_abad);
  vf_reach(1);
}
#else
struct Cmp { bool operator()(uint8_t a, uint8_t b) const { return (a >> 1) < (b >> 1); } };
typedef amc::FlatSet<uint8_t, Cmp, amc::BasicAllocatorWrapper<uint8_t, vf::LedgerBasic> > FS;
extern "C" void h_script(void) {
  {
    FS s;
#ifdef MS_KFIX
    const uint8_t k = MS_KFIX;
#else
    uint8_t k = nd8(MS_K);
#endif
    uint32_t acc = 0;
    for (unsigned i = 0; i < k; ++i) { std::pair<FS::iterator, bool> r = s.insert(static_cast<uint8_t>(nd8() & 15)); acc = acc * 4u + (r.second ? 2u : 1u) + static_cast<uint32_t>(r.first - s.begin()) * 64u; }
    vf_obs(acc);
#ifdef MS_OP
    const uint8_t op = MS_OP;
#else
    uint8_t op = nd8(3);
#endif
    uint8_t x = static_cast<uint8_t>(nd8() & 15), h = nd8(static_cast<uint8_t>(s.size()));
    uint32_t r0 = 0xFFFFu, r1 = 0xFFFFu, r2 = 0xFFFFu, r3 = 0xFFFFu;
    if (op == 0) { FS::iterator r = s.insert(s.begin() + h, x); r0 = static_cast<uint32_t>(r - s.begin()); }
    else if (op == 1) r0 = static_cast<uint32_t>(s.erase(x));
    else if (op == 2) { r0 = s.count(x); r1 = static_cast<uint32_t>(s.lower_bound(x) - s.begin()); r2 = static_cast<uint32_t>(s.upper_bound(x) - s.begin()); r3 = static_cast<uint32_t>(s.find(x) - s.begin()); }
    else { FS t(s); t.insert(x); r0 = (t == s); s.swap(t); }
    vf_obs(r0); vf_obs(r1); vf_obs(r2); vf_obs(r3);
    vf_obs(static_cast<uint32_t>(s.size()));
    for (unsigned i = 0; i < VF_MAXM; ++i) vf_obs(i < s.size() ? static_cast<uint32_t>(s.begin()[i]) : 0xFFFFu);
  }
  vf_obs(0x5A000000u | vf::g_alloc_calls); vf_obs(vf::g_released_bytes); vf_obs(vf::blocks_live()); vf_obs(vf::g_abad);
  vf_reach(1);
}
#endif
