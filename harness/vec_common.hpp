// Symbolic pre-state construction, snapshots and post-condition groups for the three vector flavours.
// A harness TU defines one or more configurations with VF_VEC_CONFIG(...) and then uses vf::Ctx<Cfg>.
#pragma once
#include "common.hpp"

// Environment stub (DESIGN 2.3): contract-level replacement of libstdc++'s std::rotate (its random-access implementation - gcd
// cycles with nested symbolic loops - does not finish in symbolic execution).  Same result: every element of [middle, last) is
// moved left over [first, middle), one position at a time, with the element type's own move operations.  amc uses std::rotate
// to bring elements appended at the end into place (insert of a single-pass range, insert of possibly-throwing copies).
namespace std {
template <class It> It vf_rotate(It first, It middle, It last) {
  It ret = first + (last - middle);
  for (It m = middle; m != last; ++m)
    for (It j = m; j != first + (m - middle); --j) { auto t = std::move(*j); *j = std::move(*(j - 1)); *(j - 1) = std::move(t); }
  return ret;
}
}
#ifndef VF_REAL_ROTATE
#define rotate vf_rotate
#endif
#include <amc/allocator.hpp>
#include <amc/fixedcapacityvector.hpp>
#include <amc/smallvector.hpp>
#include <amc/vector.hpp>
#ifndef VF_REAL_ROTATE
#undef rotate
#endif

namespace vf {

typedef amc::BasicAllocatorWrapper<B, LedgerBasic> LA_B;

enum { KIND_STD = 0, KIND_SMALL = 1, KIND_FIXED = 2 };
enum { CLS_INLINE = 0, CLS_HEAP = 1, CLS_ANY = 2 };  // CLS_INLINE means "no storage" (Z) for amc::vector

// Access structs: NAME::capa(v) / size(v) / storage words of the base class, through the explicit-instantiation idiom.
#define VF_ACCESS_SMALL(NAME, T, A, S)                                             \
  namespace vf {                                                                   \
  typedef amc::vec::SmallVectorBase<T, A, S> NAME##_Base;                          \
  typedef amc::vec::ElemWithPtrStorage<T> NAME##_Sto;                              \
  VF_ROB(NAME##_TCapa, NAME##_Base, S, _capa);                                     \
  VF_ROB(NAME##_TSize, NAME##_Base, S, _size);                                     \
  VF_ROB(NAME##_TSto, NAME##_Base, NAME##_Sto, _storage);                          \
  struct NAME {                                                                    \
    static S &capa(NAME##_Base &b) { return b.*get(NAME##_TCapa()); }              \
    static S &size(NAME##_Base &b) { return b.*get(NAME##_TSize()); }              \
    static T *inlinePtr(NAME##_Base &b) { return (b.*get(NAME##_TSto())).ptr(); }  \
    static void setDyn(NAME##_Base &b, T *p) { (b.*get(NAME##_TSto())).setDyn(p); } \
  };                                                                               \
  }
#define VF_ACCESS_STD(NAME, T, A, S)                                     \
  namespace vf {                                                         \
  typedef amc::vec::StdVectorBase<T, A, S> NAME##_Base;                  \
  VF_ROB(NAME##_TCapa, NAME##_Base, S, _capa);                           \
  VF_ROB(NAME##_TSize, NAME##_Base, S, _size);                           \
  VF_ROB(NAME##_TSto, NAME##_Base, T *, _storage);                       \
  struct NAME {                                                          \
    static S &capa(NAME##_Base &b) { return b.*get(NAME##_TCapa()); }    \
    static S &size(NAME##_Base &b) { return b.*get(NAME##_TSize()); }    \
    static T *inlinePtr(NAME##_Base &) { return nullptr; }               \
    static void setDyn(NAME##_Base &b, T *p) { b.*get(NAME##_TSto()) = p; } \
  };                                                                     \
  }
#define VF_ACCESS_FIXED(NAME, T, S)                                      \
  namespace vf {                                                         \
  typedef amc::vec::StaticVectorBase<T, S> NAME##_Base;                  \
  VF_ROB(NAME##_TSize, NAME##_Base, S, _size);                           \
  struct NAME {                                                          \
    static S &size(NAME##_Base &b) { return b.*get(NAME##_TSize()); }    \
  };                                                                     \
  }

#ifndef VF_COUNT_MAX
#define VF_COUNT_MAX 3
#endif

// ---- pre-state builders, one per flavour.  Returns with m = abstract contents.
template <class C> struct Build;

template <class C, int KIND> struct BuildK;

template <class C> struct BuildK<C, KIND_SMALL> {
  typedef typename C::V V; typedef typename C::E E; typedef typename C::S S;
  static void run(V &v, Seq &m, int cls) {
    uint8_t s; E *p;
    bool heap = cls == CLS_HEAP || (cls == CLS_ANY && (nd8() & 1));
    if (!heap) {
      s = nd8(C::N);
      C::Acc::capa(v) = static_cast<S>(s);
      C::Acc::size(v) = s == C::N ? std::numeric_limits<S>::max() : static_cast<S>(C::N);
      p = C::Acc::inlinePtr(v);
    } else {
      uint8_t c = nd8(C::CMAX); vf_assume(c >= 1);
      s = nd8(c);
      p = typename C::A().allocate(c);
      C::Acc::capa(v) = static_cast<S>(c);
      C::Acc::size(v) = static_cast<S>(s);
      C::Acc::setDyn(v, p);
    }
    for (unsigned i = 0; i < (C::CMAX > C::N ? C::CMAX : C::N); ++i) {     // inline states hold up to N elements even when N > CMAX
      if (i >= s) break;
      uint8_t x = nd8(); Elem<E>::construct(p + i, x); m.a[i] = x;
    }
    m.n = s;
  }
};
template <class C> struct BuildK<C, KIND_STD> {
  typedef typename C::V V; typedef typename C::E E; typedef typename C::S S;
  static void run(V &v, Seq &m, int cls) {
    uint8_t s = 0; E *p = nullptr;
    bool heap = cls == CLS_HEAP || (cls == CLS_ANY && (nd8() & 1));
    if (heap) {
      uint8_t c = nd8(C::CMAX); vf_assume(c >= 1);
      s = nd8(c);
      p = typename C::A().allocate(c);
      C::Acc::capa(v) = static_cast<S>(c);
      C::Acc::size(v) = static_cast<S>(s);
      C::Acc::setDyn(v, p);
    }
    for (unsigned i = 0; i < C::CMAX; ++i) {
      if (i >= s) break;
      uint8_t x = nd8(); Elem<E>::construct(p + i, x); m.a[i] = x;
    }
    m.n = s;
  }
};
template <class C> struct BuildK<C, KIND_FIXED> {
  typedef typename C::V V; typedef typename C::E E; typedef typename C::S S;
  static void run(V &v, Seq &m, int) {
    uint8_t s = nd8(C::N);
    C::Acc::size(v) = static_cast<S>(s);
    E *p = v.data();
    for (unsigned i = 0; i < C::N; ++i) {
      if (i >= s) break;
      uint8_t x = nd8(); Elem<E>::construct(p + i, x); m.a[i] = x;
    }
    m.n = s;
  }
};

enum { EXC_NONE = 0, EXC_FAULT = 1, EXC_OVERFLOW = 2, EXC_RANGE = 3, EXC_OTHER = 4 };

// flags for post()
enum {
  F_MAY_SHRINK = 1,     // capacity may legitimately decrease (shrink_to_fit, move, swap)
  F_NO_PREFIX = 2,      // do not check the "elements before the point keep their identity" clause
  F_RESERVE = 4,        // the operation is an explicit capacity request (C05 inline clause does not apply)
  F_STRONG = 8,         // on exception: strong guarantee documented
  F_HANDOVER = 16       // operation may adopt another vector's buffer (C05/C07 no-realloc clauses do not apply)
};

template <class C> struct Ctx {
  typedef typename C::V V; typedef typename C::E E; typedef typename C::S S;
  V *pv;
  Seq m;          // model: updated by the harness to the expected post-state
  Seq m0;         // pre-state contents
  uint8_t size0, cap0, alloc0, dealloc0, alive0, blocks0, exc;
  bool inline0;
  const E *data0;
  uint8_t ids0[VF_MAXM];
  uint16_t ops0;
  alignas(16) uint8_t buf[sizeof(V)];

  V &v() { return *pv; }
  bool is_inline() const {
    if (C::kind == KIND_FIXED) return true;
    if (C::kind == KIND_STD) return false;
    uintptr_t d = addr(pv->data()), o = addr(pv);
    return d >= o && d < o + sizeof(V);
  }
  void setup(int cls) {
    pv = ::new (static_cast<void *>(buf)) V();
    g_fault_at = 0;
    BuildK<C, C::kind>::run(*pv, m, cls);
    vf_assume(g_bad == 0 && g_abad == 0);
#ifdef VF_RELOC
    relocate();
#endif
    snap();
  }
#ifdef VF_RELOC
  // C14: the container declares itself trivially relocatable: move it to another address by a raw byte copy and
  // abandon (poison) the source; everything that follows runs on the copy.
  alignas(16) uint8_t buf2[sizeof(V)];
  void relocate() {
    static_assert(amc::is_trivially_relocatable<V>::value, "VF_RELOC requires a container that claims the trait");
    // the object has been used through its public interface before it is moved (anything it may have cached is cached now)
    { const V &cv = *pv; volatile uintptr_t sink = addr(cv.data()) + cv.size() + cv.capacity() + addr(pv->begin()); (void)sink; }
    std::memcpy(buf2, buf, sizeof(V));
    uint8_t pat = nd8();
    std::memset(buf, pat, sizeof(V));
    pv = reinterpret_cast<V *>(buf2);
  }
#endif
  void snap() {
    m0 = m;
    size0 = static_cast<uint8_t>(pv->size()); cap0 = static_cast<uint8_t>(pv->capacity());
    data0 = pv->data(); inline0 = is_inline();
    for (unsigned i = 0; i < VF_MAXM; ++i) { if (i >= m.n) break; ids0[i] = Elem<E>::id(data0[i]); }
    alloc0 = g_alloc_calls; dealloc0 = g_dealloc_calls; alive0 = alive_count(); blocks0 = blocks_live();
    ops0 = g_ops; exc = EXC_NONE; g_events = 0;
  }

  // ---- representation invariant in public terms (asserted after every step; what makes one step cover all histories)
  void check_inv() {
    V &w = *pv;
    uintmax_t sz = w.size(), cp = w.capacity();
    vf_assert(sz <= cp && cp <= static_cast<uintmax_t>(w.max_size()), 7001);
    if (C::kind == KIND_SMALL) {
      if (is_inline()) {
        vf_assert(cp == C::N, 5002);                      // inline <=> capacity()==N
      } else if (cp == 0) {
        vf_assert(w.data() == nullptr, 6002);             // adopted the (absent) storage of an empty amc::vector
      } else {
        int k = blk_find(w.data());
        vf_assert(k >= 0 && g_blk_n[k >= 0 ? k : 0] == cp * sizeof(E), 6002);   // heap: data() is a live block of capacity() elements
      }
    } else if (C::kind == KIND_STD) {
      if (cp == 0) vf_assert(w.data() == nullptr || blk_find(w.data()) < 0, 6002);
      else { int k = blk_find(w.data()); vf_assert(k >= 0 && g_blk_n[k >= 0 ? k : 0] == cp * sizeof(E), 6002); }
    } else {
      vf_assert(cp == C::N, 5002);
    }
  }
  void check_contents(const Seq &exp) {
    V &w = *pv;
    vf_assert(w.size() == exp.n, 1001);
    vf_assert(w.empty() == (exp.n == 0), 1002);
    const E *d = w.data();
    for (unsigned i = 0; i < VF_MAXM; ++i) {
      if (i >= exp.n || i >= w.size()) break;
      vf_assert(Elem<E>::val(d[i]) == exp.a[i], 1003);
      vf_assert(Elem<E>::sound(d[i]), 2002);               // visible element alive, not moved-from, at its own address
    }
  }
  // same comparison under another property's assertion ids (BASE+1 size, BASE+3 values)
  template <unsigned BASE> void check_contents_as(const Seq &exp) {
    V &w = *pv;
    vf_assert(w.size() == exp.n, BASE + 1);
    const E *d = w.data();
    for (unsigned i = 0; i < VF_MAXM; ++i) {
      if (i >= exp.n || i >= w.size()) break;
      vf_assert(Elem<E>::val(d[i]) == exp.a[i] && Elem<E>::sound(d[i]), BASE + 3);
    }
  }
  // extra = number of element objects legitimately alive outside the container (temporaries held by the harness)
  void check_ledgers(uint8_t extraAlive) {
    if (exc == EXC_NONE) {
      vf_assert(g_bad == 0, 2001);
      vf_assert(g_abad == 0, 6001);
      if (Elem<E>::ledger) vf_assert(alive_count() == pv->size() + extraAlive, 2003);
    } else if (exc == EXC_FAULT) {      // after an injected throw: nothing leaked, nothing destroyed twice (C09)
      vf_assert(g_bad == 0, 9004);
      vf_assert(g_abad == 0, 9005);
      if (Elem<E>::ledger) vf_assert(alive_count() == pv->size() + extraAlive, 9001);
    } else {                             // after a capacity-limit error (C08)
      vf_assert(g_bad == 0, 8004);
      vf_assert(g_abad == 0, 8005);
      if (Elem<E>::ledger) vf_assert(alive_count() == pv->size() + extraAlive, 8006);
    }
  }

  void post(unsigned flags, uint8_t extraAlive = 0, uint8_t prefix = 255) {
    V &w = *pv;
    g_fault_at = 0;
    if (exc == EXC_NONE) {
      check_contents(m);
    } else if (exc == EXC_FAULT) {
      if (flags & F_STRONG) {            // documented strong guarantee: exactly as before
        vf_assert(w.size() == m0.n, 9002);
        for (unsigned i = 0; i < VF_MAXM; ++i) { if (i >= m0.n || i >= w.size()) break; vf_assert(Elem<E>::val(w.data()[i]) == m0.a[i], 9002); }
        // (capacity()/data() may differ: amc grows before it constructs the new element; the value of the container is what
        //  the strong guarantee is about)
      }
      // basic guarantee: consistent size, every visible element alive and not moved-from
      vf_assert(w.size() <= w.capacity(), 9003);
      for (unsigned i = 0; i < VF_MAXM; ++i) { if (i >= w.size()) break; vf_assert(Elem<E>::sound(w.data()[i]), 9003); }
    } else {
      // capacity-limit error: contents, size, capacity exactly as before
      vf_assert(w.size() == m0.n, 8002);
      for (unsigned i = 0; i < VF_MAXM; ++i) { if (i >= m0.n || i >= w.size()) break; vf_assert(Elem<E>::val(w.data()[i]) == m0.a[i] && Elem<E>::sound(w.data()[i]), 8002); }
      vf_assert(w.capacity() == cap0 && w.data() == data0, 8002);
    }
    check_inv();
    check_ledgers(extraAlive);
    uint8_t cp = static_cast<uint8_t>(w.capacity());
    if (!(flags & F_MAY_SHRINK)) vf_assert(cp >= cap0, 7002);
    if (exc == EXC_NONE && !(flags & (F_MAY_SHRINK | F_HANDOVER))) {
      if (m.n <= cap0 && !(flags & F_RESERVE)) {
        // result fits the old capacity: no reallocation
        vf_assert(w.data() == data0 && g_alloc_calls == alloc0 && g_dealloc_calls == dealloc0, 7004);
        if (!(flags & F_NO_PREFIX) && Elem<E>::ledger) {
          uint8_t pre = prefix == 255 ? 0 : prefix;
          for (unsigned i = 0; i < VF_MAXM; ++i) { if (i >= pre || i >= m.n) break; vf_assert(Elem<E>::id(w.data()[i]) == ids0[i], 7005); }
        }
      }
      if (C::kind == KIND_SMALL && inline0 && m.n <= C::N && !(flags & F_RESERVE)) {
        vf_assert(g_alloc_calls == alloc0, 5001);          // no allocator request while within N
        vf_assert(is_inline(), 5003);                      // elements stay inside the object
      }
    }
    if (C::kind == KIND_FIXED) {
      vf_assert(w.data() == data0, 5004);
      vf_assert(g_alloc_calls == alloc0, 5001);
    }
    if (C::kind != KIND_FIXED && exc == EXC_NONE && !(flags & (F_MAY_SHRINK | F_HANDOVER | F_RESERVE)) && cp > cap0) {
      // C18: a vector that has to grow without a prior reserve grows by the factor 1.5 of its CAPACITY (or to what is needed, if more)
      unsigned geo = (3u * cap0 + 1u) / 2u;
      unsigned lim = static_cast<unsigned>(std::numeric_limits<S>::max());
      if (geo > lim) geo = lim;
      vf_assert(cp >= geo && cp >= m.n, 18010);
    }
#ifdef VF_RELOC
    // C14: the byte-relocated container has the same contents, supports the operation and keeps its ledgers balanced
    if (exc == EXC_NONE) check_contents_as<14000>(m);
    vf_assert(g_bad == 0 && g_abad == 0, 14005);
    if (Elem<E>::ledger) vf_assert(alive_count() == pv->size() + extraAlive, 14005);
#endif
#if defined(VF_FAULTS) || defined(VF_USABLE)
    if (exc != EXC_NONE) usable();   // only where an exception can really occur (keeps the other queries small)
#endif
  }
  // "remains fully usable": one more mutation succeeds and is observed
  void usable() {
    V &w = *pv;
    uint8_t n = static_cast<uint8_t>(w.size());
    bool ok;
    if (n > 0) { w.pop_back(); ok = w.size() == n - 1u; }
    else { w.push_back(Elem<E>::make(7)); ok = w.size() == 1 && Elem<E>::val(w.data()[0]) == 7; }
    if (exc == EXC_FAULT) vf_assert(ok, 9006); else vf_assert(ok, 8003);
  }
  void finish() {
    pv->~V();
    vf_assert(g_bad == 0, 2001);
    vf_assert(g_abad == 0, 6001);
    if (Elem<E>::ledger) vf_assert(alive_count() == 0, 2004);
    vf_assert(blocks_live() == 0, 6004);
#ifdef VF_RELOC
    vf_assert(g_bad == 0 && g_abad == 0 && blocks_live() == 0 && (!Elem<E>::ledger || alive_count() == 0), 14006);   // destroys cleanly
#endif
  }
};

#define VF_TRY(ctx, stmt)                                                   \
  do {                                                                      \
    try { stmt; }                                                           \
    catch (const ::vf::Fault &) { (ctx).exc = ::vf::EXC_FAULT; }            \
    catch (const std::overflow_error &) { (ctx).exc = ::vf::EXC_OVERFLOW; } \
    catch (const std::out_of_range &) { (ctx).exc = ::vf::EXC_RANGE; }      \
  } while (0)

}  // namespace vf
