// One-step (inductive) harnesses for every public operation of the vector flavours.
// Configuration by -D: VF_KIND (0 amc::vector, 1 SmallVector, 2 FixedCapacityVector), VF_N, VF_E (B|W|T3|R|X),
// VF_AK (0 LA = amc::allocator shape over the ledger, 1 SA = no reallocate, 2 RA = own reallocate), VF_S (size_type),
// VF_CLS (0 inline / no storage, 1 heap, 2 symbolic), VF_CMAX (bound on heap capacity), VF_FAULTS (fault injection on).
#ifndef VF_KIND
#define VF_KIND 1
#endif
#ifndef VF_N
#define VF_N 2
#endif
#ifndef VF_E
#define VF_E B
#endif
#ifndef VF_AK
#define VF_AK 0
#endif
#ifndef VF_S
#define VF_S uint8_t
#endif
#ifndef VF_CLS
#define VF_CLS 2
#endif
#ifndef VF_CMAX
#define VF_CMAX (VF_N + 3)
#endif
#include "vec_common.hpp"

typedef vf::VF_E E;
#if VF_KIND == 2
typedef amc::vec::EmptyAlloc A;
typedef amc::FixedCapacityVector<E, VF_N> V;
typedef V::size_type S;
VF_ACCESS_FIXED(Acc, E, S)
#else
#if VF_AK == 0
typedef amc::BasicAllocatorWrapper<E, vf::LedgerBasic> A;
#elif VF_AK == 1
typedef vf::SA<E> A;
#else
typedef vf::RA<E> A;
#endif
typedef VF_S S;
#if VF_KIND == 1
typedef amc::SmallVector<E, VF_N, A, S> V;
VF_ACCESS_SMALL(Acc, E, A, S)
#else
typedef amc::vector<E, A, S> V;
VF_ACCESS_STD(Acc, E, A, S)
#endif
#endif

struct Cfg {
  typedef ::E E; typedef ::A A; typedef ::S S; typedef ::V V; typedef vf::Acc Acc;
  static const int kind = VF_KIND;
  static const unsigned N = VF_N;
  static const unsigned CMAX = VF_KIND == 2 ? VF_N : VF_CMAX;
};
typedef vf::Ctx<Cfg> Ctx;
using vf::nd8; using vf::Elem; using vf::Seq;

// static facts the harness relies on: a trait change cannot silently re-route a check
static_assert(amc::is_trivially_relocatable<vf::R>::value && !amc::is_trivially_relocatable<vf::X>::value && !amc::is_trivially_relocatable<vf::Y>::value, "element traits");
static_assert(std::is_nothrow_copy_constructible<vf::Y>::value && std::is_nothrow_copy_assignable<vf::Y>::value && !std::is_nothrow_copy_constructible<vf::X>::value, "copy exception specifications select the insertion path");
static_assert(amc::is_trivially_relocatable<vf::B>::value && amc::is_trivially_relocatable<vf::T3>::value, "element traits");

// For a FixedCapacityVector an operation whose result exceeds N must throw std::out_of_range and change nothing (C08);
// for the dynamic flavours within the harness bounds nothing but an injected fault may throw (C01).
static inline bool must_overflow(unsigned newSize) { return VF_KIND == 2 && newSize > VF_N; }
static void expect_exc(Ctx &c, bool overflow) {
#ifndef VF_FAULTS
  if (overflow) vf_assert(c.exc == vf::EXC_RANGE, 8001);
  else vf_assert(c.exc == vf::EXC_NONE, 1006);
#else
  if (overflow) vf_assert(c.exc == vf::EXC_RANGE || c.exc == vf::EXC_FAULT, 8001);
  else vf_assert(c.exc == vf::EXC_NONE || c.exc == vf::EXC_FAULT, 1006);
  if (c.exc == vf::EXC_FAULT) vf_reach(2);
#endif
}
#ifdef VF_FAULTS
#define ARM_FAULT() do { vf::g_events = 0; vf::g_fault_at = nd8(VF_FAULTS); } while (0)
#else
#define ARM_FAULT() do { } while (0)
#endif
// Known finding g-insert-mid-throw (known_findings.json): inserting several elements in the middle is not even basic
// exception safe.  While the finding is open the region "insertion before end() AND an injected fault" is excluded.
#ifdef KF_INSERT_MID_THROW
#define KF_DISARM(pos) ((pos) < c.m.n ? (void)(vf::g_fault_at = 0) : (void)0)
#else
#define KF_DISARM(pos) ((void)0)
#endif
#ifndef VF_CLS2
#define VF_CLS2 2
#endif
#define OP(name) extern "C" void h_##name(void)
#define OK(c) ((c).exc == vf::EXC_NONE)

// source array for range operations: SRCN constructed elements, a symbolic prefix of which is the range
enum { SRCN = VF_COUNT_MAX + 1 };
struct Src {
  alignas(16) uint8_t raw[SRCN * sizeof(E)];
  uint8_t vals[SRCN];
  uint8_t n;
  E *a() { return reinterpret_cast<E *>(raw); }
  void build() { n = nd8(VF_COUNT_MAX); for (unsigned i = 0; i < SRCN; ++i) { vals[i] = nd8(); Elem<E>::construct(a() + i, vals[i]); } }
  void destroy() { for (unsigned i = 0; i < SRCN; ++i) a()[i].~E(); }
  void check_intact() { for (unsigned i = 0; i < SRCN; ++i) vf_assert(Elem<E>::val(a()[i]) == vals[i] && Elem<E>::sound(a()[i]), 1008); }
};

// ------------------------------------------------------------------------------------------------ single-element growth
OP(push_back_copy) {
  Ctx c; c.setup(VF_CLS);
  uint8_t x = nd8();
  {
    E tmp(Elem<E>::make(x));
    c.snap(); ARM_FAULT();
    VF_TRY(c, c.v().push_back(tmp));
    bool ovf = must_overflow(c.m.n + 1u);
    expect_exc(c, ovf);
    if (OK(c)) c.m.push_back(x);
    c.post(vf::F_STRONG, 1, c.m0.n);
    vf_assert(Elem<E>::val(tmp) == x && Elem<E>::sound(tmp), 1008);   // argument left intact
  }
  vf_reach(1);
  c.finish();
}
OP(push_back_move) {
  Ctx c; c.setup(VF_CLS);
  uint8_t x = nd8();
  {
    E tmp(Elem<E>::make(x));
    c.snap(); ARM_FAULT();
    VF_TRY(c, c.v().push_back(std::move(tmp)));
    expect_exc(c, must_overflow(c.m.n + 1u));
    if (OK(c)) c.m.push_back(x);
    c.post(vf::F_STRONG, 1, c.m0.n);
  }
  vf_reach(1);
  c.finish();
}
OP(emplace_back) {
  Ctx c; c.setup(VF_CLS);
  uint8_t x = nd8();
  ARM_FAULT();
  E *r = nullptr;
  VF_TRY(c, r = &c.v().emplace_back(Elem<E>::arg(x)));
  expect_exc(c, must_overflow(c.m.n + 1u));
  if (OK(c)) { c.m.push_back(x); vf_assert(r == c.v().data() + c.m.n - 1, 1004); }
  c.post(vf::F_STRONG, 0, c.m0.n);
  vf_reach(1);
  c.finish();
}
OP(pop_back) {
  Ctx c; c.setup(VF_CLS);
  vf_assume(c.m.n > 0);
  c.v().pop_back();
  c.m.pop_back();
  c.post(0, 0, c.m.n);
  vf_reach(1);
  c.finish();
}
OP(pop_back_val) {
  Ctx c; c.setup(VF_CLS);
  vf_assume(c.m.n > 0);
  {
    E r(c.v().pop_back_val());
    vf_assert(Elem<E>::val(r) == c.m.a[c.m.n - 1] && Elem<E>::sound(r), 1005);
    c.m.pop_back();
    c.post(0, 1, c.m.n);
  }
  vf_reach(1);
  c.finish();
}

// ------------------------------------------------------------------------------------------------ insert / emplace
OP(insert_one_copy) {
  Ctx c; c.setup(VF_CLS);
  uint8_t x = nd8(), pos = nd8(c.m.n);
  {
    E tmp(Elem<E>::make(x));
    c.snap(); ARM_FAULT();
    V::iterator r = nullptr;
    VF_TRY(c, r = c.v().insert(c.v().begin() + pos, tmp));
    expect_exc(c, must_overflow(c.m.n + 1u));
    if (OK(c)) { c.m.insert(pos, 1, x); vf_assert(r == c.v().begin() + pos, 1004); }
    c.post(vf::F_STRONG, 1, pos);
    vf_assert(Elem<E>::val(tmp) == x && Elem<E>::sound(tmp), 1008);
  }
  vf_reach(1);
  c.finish();
}
OP(insert_one_move) {
  Ctx c; c.setup(VF_CLS);
  uint8_t x = nd8(), pos = nd8(c.m.n);
  {
    E tmp(Elem<E>::make(x));
    c.snap(); ARM_FAULT();
    V::iterator r = nullptr;
    VF_TRY(c, r = c.v().insert(c.v().begin() + pos, std::move(tmp)));
    expect_exc(c, must_overflow(c.m.n + 1u));
    if (OK(c)) { c.m.insert(pos, 1, x); vf_assert(r == c.v().begin() + pos, 1004); }
    c.post(vf::F_STRONG, 1, pos);
  }
  vf_reach(1);
  c.finish();
}
OP(emplace) {
  Ctx c; c.setup(VF_CLS);
  uint8_t x = nd8(), pos = nd8(c.m.n);
  ARM_FAULT();
  V::iterator r = nullptr;
  VF_TRY(c, r = c.v().emplace(c.v().begin() + pos, Elem<E>::arg(x)));
  expect_exc(c, must_overflow(c.m.n + 1u));
  if (OK(c)) { c.m.insert(pos, 1, x); vf_assert(r == c.v().begin() + pos, 1004); }
  c.post(vf::F_STRONG, 0, pos);
  vf_reach(1);
  c.finish();
}
OP(insert_n) {
  Ctx c; c.setup(VF_CLS);
  uint8_t x = nd8(), pos = nd8(c.m.n), cnt = nd8(VF_COUNT_MAX);
  {
    E tmp(Elem<E>::make(x));
    c.snap(); ARM_FAULT();
    V::iterator r = nullptr;
    KF_DISARM(pos);
    VF_TRY(c, r = c.v().insert(c.v().begin() + pos, static_cast<S>(cnt), tmp));
    expect_exc(c, must_overflow(c.m.n + cnt));
    if (OK(c)) { c.m.insert(pos, cnt, x); vf_assert(r == c.v().begin() + pos, 1004); }
    c.post(pos == c.m0.n ? vf::F_STRONG : 0, 1, pos);   // insertion at the end: strong guarantee
    vf_assert(Elem<E>::val(tmp) == x && Elem<E>::sound(tmp), 1008);
  }
  vf_reach(1);
  c.finish();
}
#define RANGE_OP(NAME, NEWSIZE, ITE, CALL, STRONGEXPR, PREFIX)                                              \
  OP(NAME) {                                                                                            \
    Ctx c; c.setup(VF_CLS);                                                                             \
    uint8_t pos = nd8(c.m.n); (void)pos;                                                                \
    Src src; src.build();                                                                               \
    c.snap(); ARM_FAULT();                                                                              \
    V::iterator r = nullptr; (void)r;                                                                   \
    VF_TRY(c, CALL);                                                                                    \
    expect_exc(c, must_overflow(NEWSIZE));                                                              \
    vf_assert(vf::g_itbad == 0, 1009);                                                                  \
    if (OK(c)) { PREFIX }                                                                               \
    c.post((STRONGEXPR) ? vf::F_STRONG : 0, SRCN, pos);                                                 \
    src.check_intact();                                                                                 \
    vf_reach(1);                                                                                        \
    src.destroy();                                                                                      \
    c.finish();                                                                                         \
  }
#define INS_MODEL c.m.insert_range(pos, src.vals, src.n); vf_assert(r == c.v().begin() + pos, 1004);
RANGE_OP(insert_range_ptr, c.m0.n + src.n, 0, (KF_DISARM(pos), r = c.v().insert(c.v().begin() + pos, static_cast<const E *>(src.a()), static_cast<const E *>(src.a() + src.n))), pos == c.m0.n, INS_MODEL)
RANGE_OP(insert_range_fwd, c.m0.n + src.n, 0, (KF_DISARM(pos), r = c.v().insert(c.v().begin() + pos, vf::FwdIt<E>(src.a()), vf::FwdIt<E>(src.a() + src.n))), pos == c.m0.n, INS_MODEL)
RANGE_OP(insert_range_bid, c.m0.n + src.n, 0, (KF_DISARM(pos), r = c.v().insert(c.v().begin() + pos, vf::BidIt<E>(src.a()), vf::BidIt<E>(src.a() + src.n))), pos == c.m0.n, INS_MODEL)
#define APP_MODEL c.m.insert_range(c.m.n, src.vals, src.n);
RANGE_OP(append_range_ptr, c.m0.n + src.n, 0, (pos = c.m.n, c.v().append(static_cast<const E *>(src.a()), static_cast<const E *>(src.a() + src.n))), true, APP_MODEL)
RANGE_OP(append_range_fwd, c.m0.n + src.n, 0, (pos = c.m.n, c.v().append(vf::FwdIt<E>(src.a()), vf::FwdIt<E>(src.a() + src.n))), true, APP_MODEL)
#define ASG_MODEL c.m.assign_range(src.vals, src.n);
RANGE_OP(assign_range_ptr, src.n, 0, (pos = 0, c.v().assign(static_cast<const E *>(src.a()), static_cast<const E *>(src.a() + src.n))), false, ASG_MODEL)
RANGE_OP(assign_range_fwd, src.n, 0, (pos = 0, c.v().assign(vf::FwdIt<E>(src.a()), vf::FwdIt<E>(src.a() + src.n))), false, ASG_MODEL)

// single-pass input iterators (std::istream_iterator-like: all copies share one cursor)
#define INPUT_OP(NAME, NEWSIZE, CALL, MODEL)                                                                     \
  OP(NAME) {                                                                                            \
    Ctx c; c.setup(VF_CLS);                                                                             \
    uint8_t pos = nd8(c.m.n); (void)pos;                                                                \
    Src src; src.build();                                                                               \
    vf::InSrc<E> is; is.a = src.a(); is.n = src.n; is.pos = 0;                                          \
    c.snap();                                                                                           \
    V::iterator r = nullptr; (void)r;                                                                   \
    VF_TRY(c, CALL);                                                                                    \
    expect_exc(c, must_overflow(NEWSIZE));                                                              \
    vf_assert(vf::g_itbad == 0, 1009);                                                                  \
    if (OK(c)) { MODEL }                                                                                \
    c.post(0, SRCN, pos);                                                                               \
    vf_reach(1);                                                                                        \
    src.destroy();                                                                                      \
    c.finish();                                                                                         \
  }
INPUT_OP(insert_range_input, c.m0.n + src.n, r = c.v().insert(c.v().begin() + pos, vf::InIt<E>(&is, false), vf::InIt<E>(&is, true)), INS_MODEL)
INPUT_OP(append_range_input, c.m0.n + src.n, (pos = c.m.n, c.v().append(vf::InIt<E>(&is, false), vf::InIt<E>(&is, true))), APP_MODEL)
INPUT_OP(assign_range_input, (vf_assume(!must_overflow(src.n)), src.n) /* single-pass assign past a fixed capacity cannot be all-or-nothing: outside the claim */, (pos = 0, c.v().assign(vf::InIt<E>(&is, false), vf::InIt<E>(&is, true))), ASG_MODEL)

OP(insert_il) {
  Ctx c; c.setup(VF_CLS);
  uint8_t pos = nd8(c.m.n), x = nd8(), y = nd8();
  {
    E e0(Elem<E>::make(x)), e1(Elem<E>::make(y));
    c.snap();
    uint8_t before = vf::alive_count();
    V::iterator r = nullptr;
    VF_TRY(c, r = c.v().insert(c.v().begin() + pos, {e0, e1}));
    expect_exc(c, must_overflow(c.m.n + 2u));
    if (OK(c)) { uint8_t two[2] = {x, y}; c.m.insert_range(pos, two, 2); vf_assert(r == c.v().begin() + pos, 1004); }
    (void)before;
    c.post(0, 2, pos);
  }
  vf_reach(1);
  c.finish();
}

// ------------------------------------------------------------------------------------------------ erase / clear / resize / assign
OP(erase_one) {
  Ctx c; c.setup(VF_CLS);
  vf_assume(c.m.n > 0);
  uint8_t pos = nd8(static_cast<uint8_t>(c.m.n - 1));
  V::iterator r = c.v().erase(c.v().begin() + pos);
  c.m.erase(pos, static_cast<uint8_t>(pos + 1));
  vf_assert(r == c.v().begin() + pos, 1004);
  c.post(0, 0, pos);
  vf_reach(1);
  c.finish();
}
OP(erase_range) {
  Ctx c; c.setup(VF_CLS);
  uint8_t first = nd8(c.m.n), last = nd8(c.m.n);
  vf_assume(first <= last);
#ifdef KF_ERASE_EMPTY_RANGE
  vf_assume(!(first == last && first < c.m.n));
#endif
  V::iterator r = c.v().erase(c.v().begin() + first, c.v().begin() + last);
  c.m.erase(first, last);
  vf_assert(r == c.v().begin() + first, 1004);
  c.post(0, 0, first);
  vf_reach(1);
  c.finish();
}
OP(clear) {
  Ctx c; c.setup(VF_CLS);
  c.v().clear();
  c.m.clear();
  c.post(0, 0, 0);
  vf_reach(1);
  c.finish();
}
OP(resize) {
  Ctx c; c.setup(VF_CLS);
  uint8_t cnt = nd8(static_cast<uint8_t>(Cfg::CMAX + VF_COUNT_MAX));
  ARM_FAULT();
  VF_TRY(c, c.v().resize(static_cast<S>(cnt)));
  expect_exc(c, must_overflow(cnt));
  if (OK(c)) c.m.resize(cnt, 0);
  c.post(vf::F_STRONG, 0, cnt < c.m0.n ? cnt : c.m0.n);
  vf_reach(1);
  c.finish();
}
OP(resize_val) {
  Ctx c; c.setup(VF_CLS);
  uint8_t cnt = nd8(static_cast<uint8_t>(Cfg::CMAX + VF_COUNT_MAX)), x = nd8();
  {
    E tmp(Elem<E>::make(x));
    c.snap(); ARM_FAULT();
    VF_TRY(c, c.v().resize(static_cast<S>(cnt), tmp));
    expect_exc(c, must_overflow(cnt));
    if (OK(c)) c.m.resize(cnt, x);
    c.post(vf::F_STRONG, 1, cnt < c.m0.n ? cnt : c.m0.n);
  }
  vf_reach(1);
  c.finish();
}
OP(assign_n) {
  Ctx c; c.setup(VF_CLS);
  uint8_t cnt = nd8(static_cast<uint8_t>(Cfg::CMAX + VF_COUNT_MAX)), x = nd8();
  {
    E tmp(Elem<E>::make(x));
    c.snap(); ARM_FAULT();
    VF_TRY(c, c.v().assign(static_cast<S>(cnt), tmp));
    expect_exc(c, must_overflow(cnt));
    if (OK(c)) c.m.assign(cnt, x);
    c.post(vf::F_NO_PREFIX, 1, 0);
  }
  vf_reach(1);
  c.finish();
}
OP(assign_il) {
  Ctx c; c.setup(VF_CLS);
  uint8_t x = nd8(), y = nd8(), which = nd8(1);
  {
    E e0(Elem<E>::make(x)), e1(Elem<E>::make(y));
    c.snap();
    if (which) { VF_TRY(c, c.v().assign({e0, e1})); } else { VF_TRY(c, (c.v() = {e0, e1})); }
    expect_exc(c, must_overflow(2));
    if (OK(c)) { uint8_t two[2] = {x, y}; c.m.assign_range(two, 2); }
    // 'v = {..}' selects Vector::operator=(Vector&&) on a temporary (the base's operator=(initializer_list) is hidden): a move
    c.post(which ? vf::F_NO_PREFIX : (vf::F_NO_PREFIX | vf::F_MAY_SHRINK | vf::F_HANDOVER), 2, 0);
  }
  vf_reach(1);
  c.finish();
}

// ------------------------------------------------------------------------------------------------ capacity
OP(reserve) {
  Ctx c; c.setup(VF_CLS);
  uint8_t req = nd8(static_cast<uint8_t>(Cfg::CMAX + VF_COUNT_MAX));
  ARM_FAULT();
  VF_TRY(c, c.v().reserve(static_cast<S>(req)));
  expect_exc(c, must_overflow(req));
  if (OK(c)) {
    vf_assert(c.v().capacity() >= req, 7003);
    if (VF_KIND != 2) {
      // capacity reached with a single allocation (C18), none at all when it already sufficed
      vf_assert(static_cast<uint8_t>(vf::g_alloc_calls - c.alloc0) == (req > c.cap0 ? 1 : 0), 18003);
      if (req > c.cap0) vf_assert(c.v().capacity() == req, 18004);
      else vf_assert(c.v().data() == c.data0, 7004);
    }
  }
  c.post(vf::F_STRONG | vf::F_RESERVE, 0, c.m0.n);
  if (OK(c) && VF_KIND == 1 && c.inline0 && req <= VF_N) { vf_assert(vf::g_alloc_calls == c.alloc0 && c.is_inline(), 5001); }
  vf_reach(1);
  c.finish();
}
OP(shrink_to_fit) {
  Ctx c; c.setup(VF_CLS);
  ARM_FAULT();
  VF_TRY(c, c.v().shrink_to_fit());
  expect_exc(c, false);
  if (OK(c) && VF_KIND != 2) {
    // capacity == size, or back to the inline N when the elements fit there (C18)
    if (VF_KIND == 1 && c.m.n <= VF_N) { vf_assert(c.v().capacity() == VF_N && c.is_inline(), 18005); vf_assert(vf::blocks_live() == 0, 6003); }
    else vf_assert(c.v().capacity() == c.m.n, 18005);
  }
  c.post(vf::F_STRONG | vf::F_MAY_SHRINK, 0, c.m0.n);
  vf_reach(1);
  c.finish();
}

// ------------------------------------------------------------------------------------------------ append (non-standard extras)
OP(append_n) {
  Ctx c; c.setup(VF_CLS);
  uint8_t cnt = nd8(VF_COUNT_MAX);
  ARM_FAULT();
  VF_TRY(c, c.v().append(static_cast<S>(cnt)));
  expect_exc(c, must_overflow(c.m.n + cnt));
  if (OK(c)) c.m.insert(c.m.n, cnt, 0);
  c.post(vf::F_STRONG, 0, c.m0.n);
  vf_reach(1);
  c.finish();
}
OP(append_n_val) {
  Ctx c; c.setup(VF_CLS);
  uint8_t cnt = nd8(VF_COUNT_MAX), x = nd8();
  {
    E tmp(Elem<E>::make(x));
    c.snap(); ARM_FAULT();
    VF_TRY(c, c.v().append(static_cast<S>(cnt), tmp));
    expect_exc(c, must_overflow(c.m.n + cnt));
    if (OK(c)) c.m.insert(c.m.n, cnt, x);
    c.post(vf::F_STRONG, 1, c.m0.n);
  }
  vf_reach(1);
  c.finish();
}

// ------------------------------------------------------------------------------------------------ constructors (base case of the induction)
static void ctor_check(V &w, const Seq &m, bool expectInline, uint8_t allocBase = 0) {
  vf_assert(w.size() == m.n && w.empty() == (m.n == 0), 1001);
  for (unsigned i = 0; i < VF_MAXM; ++i) { if (i >= m.n || i >= w.size()) break; vf_assert(Elem<E>::val(w.data()[i]) == m.a[i], 1003); vf_assert(Elem<E>::sound(w.data()[i]), 2002); }
  vf_assert(w.size() <= w.capacity() && w.capacity() <= w.max_size(), 7001);
  if (VF_KIND == 1 && expectInline) {
    uintptr_t d = vf::addr(w.data()), o = vf::addr(&w);
    vf_assert(d >= o && d < o + sizeof(V) && w.capacity() == VF_N, 5002);
    vf_assert(vf::g_alloc_calls == allocBase, 5001);
  }
  vf_assert(vf::g_bad == 0, 2001); vf_assert(vf::g_abad == 0, 6001);
}
static void end_check() {
  vf_assert(vf::g_bad == 0, 2001); vf_assert(vf::g_abad == 0, 6001);
  if (Elem<E>::ledger) vf_assert(vf::alive_count() == 0, 2004);
  vf_assert(vf::blocks_live() == 0, 6004);
}
OP(ctor_default) {
  { V w; Seq m; m.n = 0; ctor_check(w, m, true); }
  vf_reach(1); end_check();
}
OP(ctor_n) {
  uint8_t cnt = nd8(static_cast<uint8_t>(Cfg::CMAX));
  { V w(static_cast<S>(cnt)); Seq m; m.n = 0; m.resize(cnt, 0); ctor_check(w, m, cnt <= VF_N); if (Elem<E>::ledger) vf_assert(vf::alive_count() == cnt, 2003); }
  vf_reach(1); end_check();
}
OP(ctor_n_val) {
  uint8_t cnt = nd8(static_cast<uint8_t>(Cfg::CMAX)), x = nd8();
  { E tmp(Elem<E>::make(x)); { V w(static_cast<S>(cnt), tmp); Seq m; m.n = 0; m.resize(cnt, x); ctor_check(w, m, cnt <= VF_N); if (Elem<E>::ledger) vf_assert(vf::alive_count() == cnt + 1, 2003); } }
  vf_reach(1); end_check();
}
OP(ctor_range) {
  Src src; src.build();
  uint8_t kind = nd8(1);
  {
    Seq m; m.n = 0; m.assign_range(src.vals, src.n);
    if (kind) { V w(static_cast<const E *>(src.a()), static_cast<const E *>(src.a() + src.n)); ctor_check(w, m, src.n <= VF_N); }
    else { V w(vf::FwdIt<E>(src.a()), vf::FwdIt<E>(src.a() + src.n)); ctor_check(w, m, src.n <= VF_N); }
  }
  src.check_intact(); src.destroy();
  vf_reach(1); end_check();
}
OP(ctor_range_input) {
  Src src; src.build();
  vf::InSrc<E> is; is.a = src.a(); is.n = src.n; is.pos = 0;
  { Seq m; m.n = 0; m.assign_range(src.vals, src.n); V w(vf::InIt<E>(&is, false), vf::InIt<E>(&is, true)); vf_assert(vf::g_itbad == 0, 1009); ctor_check(w, m, src.n <= VF_N); }
  src.destroy();
  vf_reach(1); end_check();
}
OP(ctor_il) {
  uint8_t x = nd8(), y = nd8();
  { E e0(Elem<E>::make(x)), e1(Elem<E>::make(y)); { V w{e0, e1}; Seq m; m.n = 0; m.push_back(x); m.push_back(y); ctor_check(w, m, 2 <= VF_N); } }
  vf_reach(1); end_check();
}

// ------------------------------------------------------------------------------------------------ binary operations (two independent symbolic operands of the same type)
struct Two {
  Ctx a, b;
  void setup() { a.setup(VF_CLS); b.setup(VF_CLS2); a.snap(); b.snap(); }
  // ledgers over both operands
  void post_ledgers(uint8_t extra) {
    vf_assert(vf::g_bad == 0, 2001); vf_assert(vf::g_abad == 0, 6001);
    if (Elem<E>::ledger) vf_assert(vf::alive_count() == a.v().size() + b.v().size() + extra, 2003);
    a.check_inv(); b.check_inv();
    uint8_t heap = 0;
    if (VF_KIND == 1) { heap = static_cast<uint8_t>(!a.is_inline()) + static_cast<uint8_t>(!b.is_inline()); }
    if (VF_KIND == 0) { heap = static_cast<uint8_t>(a.v().capacity() != 0) + static_cast<uint8_t>(b.v().capacity() != 0); }
    vf_assert(vf::blocks_live() == heap, 6003);    // every live block is owned by exactly one container
  }
  void finish() {
    b.pv->~V(); a.pv->~V();
    end_check();
  }
};
OP(copy_ctor) {
  Ctx c; c.setup(VF_CLS);
  ARM_FAULT();
  {
    alignas(16) uint8_t buf2[sizeof(V)]; V *w = nullptr;
    VF_TRY(c, w = ::new (static_cast<void *>(buf2)) V(c.v()));
    expect_exc(c, false);
    vf::g_fault_at = 0;
    if (OK(c)) {
      ctor_check(*w, c.m, c.m.n <= VF_N, c.alloc0);
      c.check_contents(c.m);
      if (Elem<E>::ledger) vf_assert(vf::alive_count() == 2 * c.m.n, 2003);
      w->~V();
    } else {
      if (Elem<E>::ledger) vf_assert(vf::alive_count() == c.m.n, 9001);     // nothing leaked by the failed construction
      vf_assert(vf::blocks_live() == c.blocks0, 9001);
      c.exc = vf::EXC_NONE;
    }
    c.check_contents(c.m); c.check_inv();
    vf_assert(c.v().data() == c.data0 && c.v().capacity() == c.cap0, 7004);   // the source is untouched
    vf_assert(vf::g_bad == 0, 2001); vf_assert(vf::g_abad == 0, 6001);
  }
  vf_reach(1);
  c.finish();
}
OP(move_ctor) {
  Ctx c; c.setup(VF_CLS);
  {
    alignas(16) uint8_t buf2[sizeof(V)];
    uint16_t ops = vf::g_ops;
    V *w = ::new (static_cast<void *>(buf2)) V(std::move(c.v()));
    ctor_check(*w, c.m, false, c.alloc0);
    if (!c.inline0 && c.cap0 != 0) {
      // heap-backed source: the buffer is handed over, element addresses preserved, no element operation (C07)
      vf_assert(w->data() == c.data0 && w->capacity() == c.cap0 && vf::g_ops == ops, 7006);
      vf_assert(vf::g_alloc_calls == c.alloc0 && vf::g_dealloc_calls == c.dealloc0, 7006);
    } else if (VF_KIND == 1) {
      uintptr_t d = vf::addr(w->data()), o = vf::addr(w);
      vf_assert(d >= o && d < o + sizeof(V) && w->capacity() == VF_N && vf::g_alloc_calls == c.alloc0, 5002);
    }
    // moved-from source: valid, empty (as std::vector in practice), and back to its initial capacity
    vf_assert(c.v().size() == 0, 1001);
    c.m.clear();
    if (Elem<E>::ledger) vf_assert(vf::alive_count() == w->size(), 2003);
    c.check_inv();
    if (VF_KIND == 1) vf_assert(c.is_inline(), 5003);
    w->~V();
  }
  vf_reach(1);
  c.finish();
}
OP(copy_assign) {
  Two t; t.setup();
  ARM_FAULT();
  VF_TRY(t.a, t.a.v() = t.b.v());
  expect_exc(t.a, false);
  vf::g_fault_at = 0;
  if (OK(t.a)) { t.a.m = t.b.m; t.a.check_contents(t.a.m); }
  else { t.a.exc = vf::EXC_NONE; for (unsigned i = 0; i < VF_MAXM; ++i) { if (i >= t.a.v().size()) break; vf_assert(Elem<E>::sound(t.a.v().data()[i]), 9003); } }
  t.b.check_contents(t.b.m);
  vf_assert(t.a.v().capacity() >= t.a.cap0, 7002);
  if (t.b.m.n <= t.a.cap0) vf_assert(t.a.v().data() == t.a.data0 && vf::g_alloc_calls == t.a.alloc0, 7004);
  if (VF_KIND == 1 && t.a.inline0 && t.b.m.n <= VF_N) vf_assert(vf::g_alloc_calls == t.a.alloc0 && t.a.is_inline(), 5001);
  t.post_ledgers(0);
  vf_reach(1);
  t.finish();
}
OP(self_copy_assign) {
  Ctx c; c.setup(VF_CLS);
  V &r = c.v();
  c.v() = r;
  c.post(0, 0, c.m.n);
  vf_reach(1);
  c.finish();
}
OP(move_assign) {
  Two t; t.setup();
  uint16_t ops = vf::g_ops;
  t.a.v() = std::move(t.b.v());
  t.a.m = t.b.m; t.b.m.clear();
  t.a.check_contents(t.a.m);
  vf_assert(t.b.v().size() == 0, 1001);
  if (!t.b.inline0 && t.b.cap0 != 0) {
    // heap-backed source: buffer handed over; the destination's old elements are destroyed, nothing else is touched
    vf_assert(t.a.v().data() == t.b.data0 && t.a.v().capacity() == t.b.cap0, 7006);
    if (Elem<E>::ledger) vf_assert(vf::g_ops == static_cast<uint16_t>(ops + t.a.m0.n), 7006);
    vf_assert(vf::g_alloc_calls == t.a.alloc0, 7006);
  } else if (VF_KIND == 1 && t.a.inline0) {
    vf_assert(vf::g_alloc_calls == t.a.alloc0 && t.a.is_inline(), 5001);   // inline <- inline stays inline, no allocation
  }
  if (VF_KIND == 2) vf_assert(t.a.v().data() == t.a.data0 && t.b.v().data() == t.b.data0, 5004);
  t.post_ledgers(0);
  vf_reach(1);
  t.finish();
}
OP(swap_member) {
  Two t; t.setup();
  uint16_t ops = vf::g_ops;
  uint8_t which = nd8(1);
  if (which) t.a.v().swap(t.b.v()); else { using std::swap; swap(t.a.v(), t.b.v()); }
  Seq tmp = t.a.m; t.a.m = t.b.m; t.b.m = tmp;
  t.a.check_contents(t.a.m); t.b.check_contents(t.b.m);
  bool aheap = VF_KIND == 0 ? t.a.cap0 != 0 : !t.a.inline0, bheap = VF_KIND == 0 ? t.b.cap0 != 0 : !t.b.inline0;
  if (VF_KIND != 2 && aheap && bheap) {
    // two heap-backed vectors: buffers handed over, no element operation (C07)
    vf_assert(t.a.v().data() == t.b.data0 && t.b.v().data() == t.a.data0 && vf::g_ops == ops, 7006);
    vf_assert(t.a.v().capacity() == t.b.cap0 && t.b.v().capacity() == t.a.cap0, 7006);
  }
  vf_assert(vf::g_alloc_calls == t.a.alloc0 && vf::g_dealloc_calls == t.a.dealloc0, 5001);   // swap never allocates
  if (VF_KIND == 2) vf_assert(t.a.v().data() == t.a.data0 && t.b.v().data() == t.b.data0, 5004);
  t.post_ledgers(0);
  vf_reach(1);
  t.finish();
}
OP(compare) {
  Two t; t.setup();
  const V &x = t.a.v(), &y = t.b.v();
  bool eq = t.a.m.equals(t.b.m), lt = t.a.m.less(t.b.m), gt = t.b.m.less(t.a.m);
  vf_assert((x == y) == eq && (x != y) == !eq, 1007);
  vf_assert((x < y) == lt && (x > y) == gt && (x <= y) == !gt && (x >= y) == !lt, 1007);
  t.a.check_contents(t.a.m); t.b.check_contents(t.b.m);
  t.post_ledgers(0);
  vf_reach(1);
  t.finish();
}
OP(access) {
  Ctx c; c.setup(VF_CLS);
  const V &w = c.v();
  uint8_t i = nd8();
  bool threw = false;
  uint8_t got = 0;
  try { got = Elem<E>::val(w.at(static_cast<S>(i))); } catch (const std::out_of_range &) { threw = true; }
  if (i >= c.m.n) { vf_assert(threw, 8001); vf_reach(3); } else { vf_assert(!threw && got == c.m.a[i], 1005); vf_assert(Elem<E>::val(w[static_cast<S>(i)]) == c.m.a[i], 1005); }
  if (c.m.n > 0) { vf_assert(Elem<E>::val(w.front()) == c.m.a[0] && Elem<E>::val(w.back()) == c.m.a[c.m.n - 1], 1005); }
  unsigned k = 0;
  for (V::const_iterator it = w.begin(); it != w.end(); ++it) { if (k >= VF_MAXM) break; vf_assert(k < c.m.n && Elem<E>::val(*it) == c.m.a[k], 1005); ++k; }
  vf_assert(k == c.m.n, 1005);
  k = 0;
  for (V::const_reverse_iterator it = w.rbegin(); it != w.rend(); ++it) { if (k >= VF_MAXM) break; vf_assert(k < c.m.n && Elem<E>::val(*it) == c.m.a[c.m.n - 1 - k], 1005); ++k; }
  vf_assert(k == c.m.n, 1005);
  vf_assert(w.cbegin() == w.begin() && w.cend() == w.end() && w.data() == w.begin(), 1005);
  c.post(0, 0, c.m.n);
  vf_reach(1);
  c.finish();
}

// ------------------------------------------------------------------------------------------------ C10: the value argument refers to an element of the same vector
#define ALIAS_OP(NAME, DECLS, CALL, MODEL, NEWSIZE)                                        \
  OP(NAME) {                                                                               \
    Ctx c; c.setup(VF_CLS);                                                                \
    vf_assume(c.m.n > 0);                                                                  \
    uint8_t src = nd8(static_cast<uint8_t>(c.m.n - 1));                                    \
    uint8_t x = c.m.a[src];                                                                \
    DECLS                                                                                  \
    VF_TRY(c, CALL);                                                                       \
    expect_exc(c, must_overflow(NEWSIZE));                                                 \
    if (OK(c)) { MODEL }                                                                   \
    c.check_contents_as<10000>(c.m);      /* as if the element had been copied before the call */ \
    if (OK(c) && c.m.n > c.cap0) vf_reach(2);   /* the reallocating case is covered */     \
    c.post(vf::F_NO_PREFIX, 0, 0);                                                         \
    vf_reach(1);                                                                           \
    c.finish();                                                                            \
  }
ALIAS_OP(alias_push_back, , c.v().push_back(c.v()[src]), c.m.push_back(x);, c.m.n + 1u)
ALIAS_OP(alias_emplace_back, , c.v().emplace_back(c.v()[src]), c.m.push_back(x);, c.m.n + 1u)
ALIAS_OP(alias_insert_one, uint8_t pos = nd8(c.m.n);, c.v().insert(c.v().begin() + pos, c.v()[src]), c.m.insert(pos, 1, x);, c.m.n + 1u)
ALIAS_OP(alias_emplace, uint8_t pos = nd8(c.m.n);, c.v().emplace(c.v().begin() + pos, c.v()[src]), c.m.insert(pos, 1, x);, c.m.n + 1u)
ALIAS_OP(alias_insert_n, uint8_t pos = nd8(c.m.n); uint8_t cnt = nd8(VF_COUNT_MAX);, c.v().insert(c.v().begin() + pos, static_cast<S>(cnt), c.v()[src]), c.m.insert(pos, cnt, x);, c.m.n + cnt)
ALIAS_OP(alias_resize, uint8_t cnt = nd8(static_cast<uint8_t>(Cfg::CMAX + VF_COUNT_MAX));, c.v().resize(static_cast<S>(cnt), c.v()[src]), c.m.resize(cnt, x);, cnt)
ALIAS_OP(alias_assign_n, uint8_t cnt = nd8(static_cast<uint8_t>(Cfg::CMAX + VF_COUNT_MAX));, c.v().assign(static_cast<S>(cnt), c.v()[src]), c.m.assign(cnt, x);, cnt)
ALIAS_OP(alias_append_n, uint8_t cnt = nd8(VF_COUNT_MAX);, c.v().append(static_cast<S>(cnt), c.v()[src]), c.m.insert(c.m.n, cnt, x);, c.m.n + cnt)
