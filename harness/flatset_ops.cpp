// One-step harnesses for amc::FlatSet over a symbolic sorted content (C03, C12, C19; ledgers for C02/C06).
// -D: FS_VEC (0 amc::vector<K,A,u32>, 1 SmallVector<K,FS_N,A,u8>, 2 FixedCapacityVector<K,FS_N>), FS_N, FS_CLS (vector state class),
//     FS_CMP (0 std::less, 1 std::greater, 2 stateful comparator Cmp{dir=FS_DIR, shift=FS_SHIFT}, 3 transparent stateless),
//     FS_DIR, FS_SHIFT, FS_KEYS (key domain), FS_MAX (max elements), FS_STUBSORT (contract stubs for std::sort/inplace_merge)
#ifndef FS_VEC
#define FS_VEC 0
#endif
#ifndef FS_N
#define FS_N 2
#endif
#ifndef FS_CLS
#define FS_CLS 2
#endif
#ifndef FS_CMP
#define FS_CMP 2
#endif
#ifndef FS_DIR
#define FS_DIR 0
#endif
#ifndef FS_SHIFT
#define FS_SHIFT 0
#endif
#ifndef FS_KEYS
#define FS_KEYS 8
#endif
#ifndef FS_MAX
#define FS_MAX 4
#endif
#ifndef FS_RANGE
#define FS_RANGE 2
#endif
#define VF_MAXM (FS_MAX + 4)
#include "common.hpp"
#include <optional>
#include <tuple>
#ifdef FS_STUBSORT
// Environment stub (DESIGN 2.3): contract-level replacements for libstdc++'s sort / inplace_merge (stable insertion
// sort calling the same comparator object); every other std algorithm stays the real one.
namespace std {
template <class It, class C> void vf_sort(It f, It l, C c) {
  for (It i = f; i != l; ++i)
    for (It j = i; j != f && c(*j, *(j - 1)); --j) { auto t = std::move(*j); *j = std::move(*(j - 1)); *(j - 1) = std::move(t); }
}
template <class It, class C> void vf_inplace_merge(It f, It m, It l, C c) {
  for (It i = m; i != l; ++i)
    for (It j = i; j != f && c(*j, *(j - 1)); --j) { auto t = std::move(*j); *j = std::move(*(j - 1)); *(j - 1) = std::move(t); }
}
}
#define sort vf_sort
#define inplace_merge vf_inplace_merge
#endif
#include "vec_common.hpp"
#include <amc/flatset.hpp>
#ifdef FS_STUBSORT
#undef sort
#undef inplace_merge
#endif

typedef uint8_t K;
typedef amc::BasicAllocatorWrapper<K, vf::LedgerBasic> A;
static unsigned g_cmp;   // comparator calls (C19)
#if FS_CMP == 0
struct Cmp : std::less<K> { bool operator()(K a, K b) const { ++g_cmp; return a < b; } static bool dir() { return false; } static unsigned shift() { return 0; } };
#elif FS_CMP == 1
struct Cmp : std::greater<K> { bool operator()(K a, K b) const { ++g_cmp; return a > b; } static bool dir() { return true; } static unsigned shift() { return 0; } };
#elif FS_CMP == 2
// stateful: direction and coarseness are data members; a default-constructed Cmp is plain '<'
struct Cmp {
  uint8_t d, s;
  Cmp() : d(0), s(0) {}
  Cmp(uint8_t dd, uint8_t ss) : d(dd), s(ss) {}
  bool operator()(K a, K b) const { ++g_cmp; a = static_cast<K>(a >> s); b = static_cast<K>(b >> s); return d ? a > b : a < b; }
  bool dir() const { return d != 0; }
  unsigned shift() const { return s; }
};
#else
struct Key2 { uint8_t k; };   // foreign key type for heterogeneous lookup
struct Cmp {
  typedef void is_transparent;
  bool operator()(K a, K b) const { ++g_cmp; return a < b; }
  bool operator()(K a, Key2 b) const { ++g_cmp; return a < b.k; }
  bool operator()(Key2 a, K b) const { ++g_cmp; return a.k < b; }
  static bool dir() { return false; } static unsigned shift() { return 0; }
};
#endif
static Cmp make_cmp() {
#if FS_CMP == 2
  return Cmp(FS_DIR, FS_SHIFT);
#else
  return Cmp();
#endif
}
// second operand: for the stateful comparator it is built with the OPPOSITE direction, so that operations exchanging or
// copying sets are observed to carry the comparator object along
static Cmp make_cmp2() {
#if FS_CMP == 2
  return Cmp(FS_DIR ? 0 : 1, FS_SHIFT);
#else
  return Cmp();
#endif
}

#if FS_VEC == 0
typedef uint32_t S;
typedef amc::vector<K, A, S> Vec;
VF_ACCESS_STD(Acc, K, A, S)
#define FS_KIND 0
#elif FS_VEC == 1
typedef uint8_t S;
typedef amc::SmallVector<K, FS_N, A, S> Vec;
VF_ACCESS_SMALL(Acc, K, A, S)
#define FS_KIND 1
#else
typedef amc::FixedCapacityVector<K, FS_N> Vec;
typedef Vec::size_type S;
VF_ACCESS_FIXED(Acc, K, S)
#define FS_KIND 2
#endif
#if FS_VEC == 2
typedef amc::FlatSet<K, Cmp, amc::vec::EmptyAlloc, Vec> FS;
#else
typedef amc::FlatSet<K, Cmp, A, Vec> FS;
#endif
namespace vf { VF_ROB(FS_TVec, FS, Vec, _sortedVector); }
static Vec &vec_of(FS &s) { return s.*get(vf::FS_TVec()); }

struct VCfg {
  typedef K E; typedef ::A A; typedef ::S S; typedef Vec V; typedef vf::Acc Acc;
  static const int kind = FS_KIND;
  static const unsigned N = FS_N;
  static const unsigned CMAX = FS_VEC == 2 ? FS_N : FS_MAX;
};
using vf::nd8; using vf::Seq;

// ---- oracle: set of equivalence classes with their representative, in comparator order
struct SetM {
  Cmp c;
  bool has[FS_KEYS]; uint8_t rep[FS_KEYS];
  unsigned cls(K k) const { return static_cast<unsigned>(k >> c.shift()); }
  void clear() { for (unsigned i = 0; i < FS_KEYS; ++i) has[i] = false; }
  unsigned count() const { unsigned n = 0; for (unsigned i = 0; i < FS_KEYS; ++i) n += has[i]; return n; }
  bool contains(K k) const { return has[cls(k)]; }
  bool before(unsigned ca, unsigned cb) const { return c.dir() ? ca > cb : ca < cb; }   // strict class order
  unsigned rank(unsigned cl) const { unsigned r = 0; for (unsigned i = 0; i < FS_KEYS; ++i) r += has[i] && before(i, cl); return r; }  // classes strictly before
  bool insert(K k) { unsigned cl = cls(k); if (has[cl]) return false; has[cl] = true; rep[cl] = k; return true; }
  bool erase(K k) { unsigned cl = cls(k); bool w = has[cl]; has[cl] = false; return w; }
  K nth(unsigned n) const { for (unsigned i = 0; i < FS_KEYS; ++i) if (has[i] && rank(i) == n) return rep[i]; return 0; }
};

struct Ctx {
  alignas(16) uint8_t buf[sizeof(FS)];
  FS *ps; SetM m;
  uint8_t alloc0;
  FS &s() { return *ps; }
  void setup(int cls) {
    m.c = make_cmp(); m.clear();
    ps = ::new (static_cast<void *>(buf)) FS(m.c);
    Seq q;
    vf::BuildK<VCfg, FS_KIND>::run(vec_of(*ps), q, cls);
    vf_assume(q.n <= FS_MAX);
    for (unsigned i = 0; i < VF_MAXM; ++i) {
      if (i >= q.n) break;
      vf_assume(q.a[i] < FS_KEYS);
      if (i > 0) vf_assume(m.before(m.cls(q.a[i - 1]), m.cls(q.a[i])));    // strictly increasing under the stored comparator
      m.has[m.cls(q.a[i])] = true; m.rep[m.cls(q.a[i])] = q.a[i];
    }
    vf_assume(vf::g_abad == 0);
    alloc0 = vf::g_alloc_calls; g_cmp = 0;
  }
  void setup2() {          // as setup(2) but with make_cmp2()
    m.c = make_cmp2(); m.clear();
    ps = ::new (static_cast<void *>(buf)) FS(m.c);
    Seq q;
    vf::BuildK<VCfg, FS_KIND>::run(vec_of(*ps), q, 2);
    vf_assume(q.n <= FS_MAX);
    for (unsigned i = 0; i < VF_MAXM; ++i) {
      if (i >= q.n) break;
      vf_assume(q.a[i] < FS_KEYS);
      if (i > 0) vf_assume(m.before(m.cls(q.a[i - 1]), m.cls(q.a[i])));
      m.has[m.cls(q.a[i])] = true; m.rep[m.cls(q.a[i])] = q.a[i];
    }
    vf_assume(vf::g_abad == 0);
    alloc0 = vf::g_alloc_calls; g_cmp = 0;
  }
  // exact: every class keeps the representative the model says (never replaced by an equivalent newcomer)
  void check(bool exactRep = true) {
    const FS &f = *ps;
    unsigned n = m.count();
    vf_assert(f.size() == n && f.empty() == (n == 0), 3001);
    const K *d = f.begin();
    for (unsigned i = 0; i < VF_MAXM; ++i) {
      if (i >= n || i >= f.size()) break;
      K x = d[i];
      vf_assert(x < FS_KEYS && m.has[m.cls(x)], 3002);                               // holds exactly the elements std::set would
      if (exactRep) vf_assert(m.rep[m.cls(x)] == x, 3003);
      if (i > 0) vf_assert(m.before(m.cls(d[i - 1]), m.cls(x)), 3004);               // strictly increasing under the STORED comparator
    }
    vf_assert(f.end() - f.begin() == static_cast<ptrdiff_t>(f.size()), 3001);
#if FS_CMP == 2
    { Cmp kc = f.key_comp(); vf_assert(kc.d == m.c.d && kc.s == m.c.s, 3014); }      // the comparator object the set was constructed with / was given
#endif
    vf_assert(vf::g_abad == 0, 6001);
    Vec &v = vec_of(*ps);
    vf_assert(v.size() <= v.capacity(), 7001);
  }
  void finish() {
    ps->~FS();
    vf_assert(vf::g_abad == 0, 6001);
    vf_assert(vf::blocks_live() == 0, 6004);
  }
};
#define OP(name) extern "C" void h_##name(void)
static K ndkey() { K k = nd8(); vf_assume(k < FS_KEYS); return k; }
static unsigned ceil_log2(unsigned x) { unsigned r = 0; while ((1u << r) < x) ++r; return r; }
static unsigned log_bound(unsigned n) { return 2 * ceil_log2(n + 1) + 4; }

OP(insert) {
  Ctx c; c.setup(FS_CLS);
  K v = ndkey(); bool rv = nd8(1);
  unsigned n0 = c.m.count();
  g_cmp = 0;
  std::pair<FS::iterator, bool> r = rv ? c.s().insert(K(v)) : c.s().insert(static_cast<const K &>(v));
  vf_assert(g_cmp <= log_bound(n0), 19001);                      // position search is logarithmic (C19)
  bool isnew = c.m.insert(v);
  vf_assert(r.second == isnew, 3005);
  vf_assert(r.first == c.s().begin() + c.m.rank(c.m.cls(v)) && *r.first == c.m.rep[c.m.cls(v)], 3006);
  c.check();
  vf_reach(1);
  c.finish();
}
OP(emplace) {
  Ctx c; c.setup(FS_CLS);
  K v = ndkey();
  unsigned n0 = c.m.count();
  g_cmp = 0;
  std::pair<FS::iterator, bool> r = c.s().emplace(v);
  vf_assert(g_cmp <= log_bound(n0), 19001);
  bool isnew = c.m.insert(v);
  vf_assert(r.second == isnew, 3005);
  vf_assert(r.first == c.s().begin() + c.m.rank(c.m.cls(v)) && *r.first == c.m.rep[c.m.cls(v)], 3006);
  c.check();
  vf_reach(1);
  c.finish();
}
// C12: a hint is only a hint
OP(insert_hint) {
  Ctx c; c.setup(FS_CLS);
  K v = ndkey(); uint8_t h = nd8(static_cast<uint8_t>(c.m.count()));
#ifdef FS_FORM
  const uint8_t form = FS_FORM;     // partitioned: one query per overload
#else
  uint8_t form = nd8(2);
#endif
  unsigned n0 = c.m.count();
  bool correct = h == c.m.rank(c.m.cls(v));     // hint designates the position the value belongs at
  g_cmp = 0;
  FS::iterator r = form == 0 ? c.s().insert(c.s().begin() + h, static_cast<const K &>(v))
                 : form == 1 ? c.s().insert(c.s().begin() + h, K(v)) : c.s().emplace_hint(c.s().begin() + h, v);
  if (correct) { vf_assert(g_cmp <= 4, 19002); vf_reach(2); }      // a correct hint makes insertion search-free (C19)
  else vf_assert(g_cmp <= log_bound(n0) + 4, 19001);
  c.m.insert(v);
  vf_assert(r == c.s().begin() + c.m.rank(c.m.cls(v)) && *r == c.m.rep[c.m.cls(v)], 12001);   // returned iterator designates the equivalent element
  vf_assert(r == c.s().begin() + c.m.rank(c.m.cls(v)), 3006);                                 // same element position as std::set (C03)
  // resulting set equals that of plain insert(v)
  {
    const FS &f = c.s(); unsigned n = c.m.count();
    vf_assert(f.size() == n, 12002);
    for (unsigned i = 0; i < VF_MAXM; ++i) { if (i >= n || i >= f.size()) break; vf_assert(f.begin()[i] == c.m.nth(i), 12002); }
  }
  c.check();
  vf_reach(1);
  c.finish();
}
OP(insert_range) {
  Ctx c; c.setup(FS_CLS);
  K in[FS_RANGE + 1]; uint8_t n = nd8(FS_RANGE);
  for (unsigned i = 0; i < FS_RANGE + 1; ++i) in[i] = ndkey();
#ifdef FS_IL
  if (n == 2) c.s().insert({in[0], in[1]}); else { n = 0; c.s().insert(std::initializer_list<K>()); }
#else
  c.s().insert(static_cast<const K *>(in), static_cast<const K *>(in + n));
#endif
  SetM before = c.m;
  for (unsigned i = 0; i < FS_RANGE; ++i) { if (i >= n) break; c.m.insert(in[i]); }
  c.check(false);            // which of several mutually equivalent NEW keys survives is left open (std::sort is not stable) ...
  {
    // ... but an element already in the set is never replaced by an equivalent newcomer
    const FS &f = c.s();
    for (unsigned i = 0; i < VF_MAXM; ++i) { if (i >= f.size()) break; K x = f.begin()[i]; if (x < FS_KEYS && before.has[before.cls(x)]) vf_assert(before.rep[before.cls(x)] == x, 3003); }
  }
  vf_reach(1);
  c.finish();
}
OP(erase_key) {
  Ctx c; c.setup(FS_CLS);
  K v = ndkey();
  unsigned n0 = c.m.count();
  g_cmp = 0;
  FS::size_type r = c.s().erase(v);
  vf_assert(g_cmp <= log_bound(n0), 19001);
  bool was = c.m.erase(v);
  vf_assert(r == (was ? 1u : 0u), 3005);
  c.check();
  vf_reach(1);
  c.finish();
}
OP(erase_pos) {
  Ctx c; c.setup(FS_CLS);
  unsigned n0 = c.m.count();
  vf_assume(n0 > 0);
  uint8_t p = nd8(static_cast<uint8_t>(n0 - 1));
  K victim = c.m.nth(p);
  FS::iterator r = c.s().erase(c.s().begin() + p);
  c.m.erase(victim);
  vf_assert(r == c.s().begin() + p, 3006);
  c.check();
  vf_reach(1);
  c.finish();
}
OP(erase_range) {
  Ctx c; c.setup(FS_CLS);
  unsigned n0 = c.m.count();
  uint8_t a = nd8(static_cast<uint8_t>(n0)), b = nd8(static_cast<uint8_t>(n0));
  vf_assume(a <= b);
  K victims[VF_MAXM];
  for (unsigned i = 0; i < VF_MAXM; ++i) { if (i >= n0) break; victims[i] = c.m.nth(i); }
  FS::iterator r = c.s().erase(c.s().begin() + a, c.s().begin() + b);
  for (unsigned i = 0; i < VF_MAXM; ++i) { if (i >= n0) break; if (i >= a && i < b) c.m.erase(victims[i]); }
  vf_assert(r == c.s().begin() + a, 3006);
  c.check();
  vf_reach(1);
  c.finish();
}
OP(clear) {
  Ctx c; c.setup(FS_CLS);
  c.s().clear();
  c.m.clear();
  c.check();
  vf_reach(1);
  c.finish();
}
// lookups: results equal std::set's; comparator calls logarithmic (C19)
OP(lookup) {
  Ctx c; c.setup(FS_CLS);
  K v = ndkey();
  const FS &f = c.s();
  unsigned n = c.m.count(), cl = c.m.cls(v), rk = c.m.rank(cl);
  bool has = c.m.contains(v);
  unsigned bound = log_bound(n);
  g_cmp = 0; FS::const_iterator it = f.find(v); vf_assert(g_cmp <= bound, 19001);
  vf_assert(has ? (it == f.begin() + rk && *it == c.m.rep[cl]) : it == f.end(), 3007);
  g_cmp = 0; bool ct = f.contains(v); vf_assert(g_cmp <= bound, 19001); vf_assert(ct == has, 3007);
  g_cmp = 0; FS::size_type cn = f.count(v); vf_assert(g_cmp <= bound, 19001); vf_assert(cn == (has ? 1u : 0u), 3007);
  g_cmp = 0; FS::const_iterator lb = f.lower_bound(v); vf_assert(g_cmp <= bound, 19001); vf_assert(lb == f.begin() + rk, 3008);
  g_cmp = 0; FS::const_iterator ub = f.upper_bound(v); vf_assert(g_cmp <= bound, 19001); vf_assert(ub == f.begin() + rk + (has ? 1 : 0), 3008);
  g_cmp = 0; std::pair<FS::const_iterator, FS::const_iterator> er = f.equal_range(v); vf_assert(g_cmp <= bound, 19001);
  // equal_range delimits the same, possibly empty, run of elements as std::set: [lower_bound, upper_bound)
  vf_assert(er.first == f.begin() + rk && er.second == f.begin() + rk + (has ? 1 : 0), 3009);
  if (n > 0) vf_assert(f.front() == c.m.nth(0) && f.back() == c.m.nth(n - 1), 3007);
  // reverse iteration visits the same elements backwards
  unsigned k = 0;
  for (FS::const_reverse_iterator r = f.rbegin(); r != f.rend(); ++r) { if (k >= VF_MAXM) break; vf_assert(k < n && *r == c.m.nth(n - 1 - k), 3004); ++k; }
  vf_assert(k == n, 3004);
  c.check();
  vf_reach(1);
  c.finish();
}
#if FS_CMP == 3
OP(lookup_transparent) {
  Ctx c; c.setup(FS_CLS);
  Key2 v; v.k = ndkey();
  const FS &f = c.s();
  unsigned n = c.m.count(), cl = c.m.cls(v.k), rk = c.m.rank(cl);
  bool has = c.m.contains(v.k);
  unsigned bound = log_bound(n);
  g_cmp = 0; FS::const_iterator it = f.find(v); vf_assert(g_cmp <= bound, 19001);
  vf_assert(has ? (it == f.begin() + rk) : it == f.end(), 3007);
  vf_assert(f.contains(v) == has && f.count(v) == (has ? 1u : 0u), 3007);
  vf_assert(f.lower_bound(v) == f.begin() + rk && f.upper_bound(v) == f.begin() + rk + (has ? 1 : 0), 3008);
  c.check();
  vf_reach(1);
  c.finish();
}
#endif
#ifdef AMC_CXX17
OP(insert_node) {
  Ctx c; c.setup(FS_CLS);
  // a node obtained from another set (extract), then offered to this one
  K v = ndkey();
  bool empty = nd8(1);
  FS::node_type nh;
  if (!empty) { FS other(c.m.c); other.insert(v); nh = other.extract(v); vf_assert(!nh.empty() && nh.value() == v, 3010); }
  bool was = !empty && c.m.contains(v);
  FS::insert_return_type r = c.s().insert(std::move(nh));
  if (empty) { vf_assert(!r.inserted && r.position == c.s().end() && r.node.empty(), 3011); }
  else if (was) {
    // meets an equivalent element: not inserted, the node keeps owning its value (as std::set)
    vf_assert(!r.inserted, 3011);
    vf_assert(!r.node.empty() && r.node.value() == v, 3012);
    vf_assert(r.position == c.s().begin() + c.m.rank(c.m.cls(v)), 3011);
    vf_reach(2);
  } else {
    c.m.insert(v);
    vf_assert(r.inserted && r.node.empty() && r.position == c.s().begin() + c.m.rank(c.m.cls(v)), 3011);
  }
  c.check();
  vf_reach(1);
  c.finish();
}
OP(extract) {
  Ctx c; c.setup(FS_CLS);
  K v = ndkey(); bool bypos = nd8(1);
  unsigned n0 = c.m.count();
  if (bypos) {
    vf_assume(n0 > 0);
    uint8_t p = nd8(static_cast<uint8_t>(n0 - 1));
    K victim = c.m.nth(p);
    FS::node_type nh = c.s().extract(c.s().begin() + p);
    vf_assert(!nh.empty() && nh.value() == victim, 3010);
    c.m.erase(victim);
  } else {
    bool has = c.m.contains(v); K rep = c.m.rep[c.m.cls(v)];
    FS::node_type nh = c.s().extract(v);
    vf_assert(nh.empty() == !has, 3010);
    if (has) { vf_assert(nh.value() == rep, 3010); c.m.erase(v); }
  }
  c.check();
  vf_reach(1);
  c.finish();
}
#endif

// ---- binary operations
struct Two {
  Ctx a, b;
  void setup() { a.setup(FS_CLS); b.setup2(); }
  void finish() { b.ps->~FS(); a.ps->~FS(); vf_assert(vf::g_abad == 0, 6001); vf_assert(vf::blocks_live() == 0, 6004); }
};
OP(merge_same) {
  Two t; t.a.setup(FS_CLS); t.b.setup(2);     // same comparator state on both sides
  t.a.s().merge(t.b.s());
  // elements of b whose class is absent from a move to a; the others stay in b
  for (unsigned i = 0; i < FS_KEYS; ++i) {
    if (t.b.m.has[i] && !t.a.m.has[i]) { t.a.m.has[i] = true; t.a.m.rep[i] = t.b.m.rep[i]; t.b.m.has[i] = false; }
  }
  t.a.check(); t.b.check();
  vf_reach(1);
  t.finish();
}
// merge from a set with a different comparator type: elements of 'o' without an equivalent (under OUR comparator) move over
struct Cmp2 { bool operator()(K a, K b) const { return a > b; } };
#if FS_VEC == 2
typedef amc::FlatSet<K, Cmp2, amc::vec::EmptyAlloc, Vec> FSO;
#else
typedef amc::FlatSet<K, Cmp2, A, Vec> FSO;
#endif
OP(merge_other) {
  Ctx c; c.setup(FS_CLS);
  SetM om = c.m; om.clear();
  bool ohas[FS_KEYS]; for (unsigned i = 0; i < FS_KEYS; ++i) ohas[i] = false;
  {
    FSO o;
    uint8_t k = nd8(2);
    for (unsigned i = 0; i < 2; ++i) { if (i >= k) break; K x = ndkey(); o.insert(x); ohas[x] = true; }
    c.s().merge(o);
    // expected: visiting o in ITS order (descending key), a key moves iff its class is absent from the destination at that moment
    for (unsigned j = 0; j < FS_KEYS; ++j) {
      unsigned x = FS_KEYS - 1 - j;
      if (ohas[x] && !c.m.has[c.m.cls(static_cast<K>(x))]) { c.m.has[c.m.cls(static_cast<K>(x))] = true; c.m.rep[c.m.cls(static_cast<K>(x))] = static_cast<K>(x); ohas[x] = false; }
    }
    c.check();
    unsigned on = 0; for (unsigned i = 0; i < FS_KEYS; ++i) on += ohas[i];
    vf_assert(o.size() == on, 3015);
    for (unsigned i = 0; i < FS_KEYS; ++i) vf_assert(o.contains(static_cast<K>(i)) == ohas[i], 3015);
  }
  vf_reach(1);
  c.finish();
}
OP(swap) {
  Two t; t.setup();
  bool which = nd8(1);
  if (which) t.a.s().swap(t.b.s()); else { using std::swap; swap(t.a.s(), t.b.s()); }
  SetM tmp = t.a.m; t.a.m = t.b.m; t.b.m = tmp;
  t.a.check(); t.b.check();
  { K v = ndkey(); t.a.s().insert(v); t.a.m.insert(v); t.a.check(); }     // later operations order with the comparator that came along
  vf_reach(1);
  t.finish();
}
OP(copy_move) {
  Ctx c; c.setup(FS_CLS);
  uint8_t form = nd8(3);
  {
    alignas(16) uint8_t buf2[sizeof(FS)];
    FS *w;
    Ctx d; d.m = c.m;
    if (form == 0) { w = ::new (static_cast<void *>(buf2)) FS(c.s()); }
    else if (form == 1) { w = ::new (static_cast<void *>(buf2)) FS(std::move(c.s())); c.m.clear(); }
    else if (form == 2) { w = ::new (static_cast<void *>(buf2)) FS(make_cmp2()); *w = c.s(); }
    else { w = ::new (static_cast<void *>(buf2)) FS(make_cmp2()); *w = std::move(c.s()); c.m.clear(); }
    d.ps = w;
    d.check();
    c.check();
    { K v = ndkey(); w->insert(v); d.m.insert(v); d.check(); }            // the copy / moved-to set orders with the source's comparator
    w->~FS();
  }
  vf_reach(1);
  c.finish();
}
OP(compare) {
  Two t; t.setup();
  const FS &x = t.a.s(), &y = t.b.s();
  // std::set compares the element sequences with ==, < (not the comparator)
  unsigned na = t.a.m.count(), nb = t.b.m.count();
  bool eq = na == nb, lt = false, decided = false;
  for (unsigned i = 0; i < VF_MAXM; ++i) {
    if (i >= na || i >= nb) break;
    K p = t.a.m.nth(i), q = t.b.m.nth(i);
    if (p != q) { eq = false; if (!decided) { lt = p < q; decided = true; } }
  }
  if (!decided) lt = na < nb;
  vf_assert((x == y) == eq && (x != y) == !eq, 3013);
  vf_assert((x < y) == lt && (y > x) == lt && (x >= y) == !lt && (y <= x) == !lt, 3013);
  t.a.check(); t.b.check();
  vf_reach(1);
  t.finish();
}
#ifdef AMC_NONSTD_FEATURES
// construction / assignment from a vector, steal_vector: buffers change owner (C06), contents sorted and de-duplicated
OP(from_vector) {
  SetM m; m.c = make_cmp(); m.clear();
  uint8_t form = nd8(1);
  {
    alignas(16) uint8_t vb[sizeof(Vec)];
    Vec *v = ::new (static_cast<void *>(vb)) Vec();
    Seq q;
    vf::BuildK<VCfg, FS_KIND>::run(*v, q, FS_CLS);
    vf_assume(q.n <= FS_RANGE + 1);
    for (unsigned i = 0; i < FS_RANGE + 1; ++i) { if (i >= q.n) break; vf_assume(q.a[i] < FS_KEYS); m.insert(q.a[i]); }
    const K *d0 = v->data(); bool heap = FS_KIND != 2 && vf::blk_find(d0) >= 0;
    Ctx c; c.m = m;
    if (form) { c.ps = ::new (static_cast<void *>(c.buf)) FS(std::move(*v), m.c); }
    else { c.ps = ::new (static_cast<void *>(c.buf)) FS(m.c); c.s() = std::move(*v); }
    if (heap) vf_assert(c.s().data() == d0, 7006);        // buffer handed over
    vf_assert(v->size() == 0, 3001);
    c.check(false);
    // ... and back out again
    Vec out(c.s().steal_vector());
    vf_assert(c.s().empty(), 3001);
    vf_assert(out.size() == m.count(), 3001);
    for (unsigned i = 0; i < VF_MAXM; ++i) { if (i >= out.size()) break; vf_assert(m.has[m.cls(out[static_cast<S>(i)])], 3002); }
    c.ps->~FS();
    v->~Vec();
  }
  vf_assert(vf::g_abad == 0, 6001);
  vf_assert(vf::blocks_live() == 0, 6004);
  vf_reach(1);
}
#endif
OP(ctor_range) {
  SetM m; m.c = make_cmp(); m.clear();
  K in[FS_RANGE + 1]; uint8_t n = nd8(FS_RANGE + 1);
  for (unsigned i = 0; i < FS_RANGE + 1; ++i) in[i] = ndkey();
  {
    Ctx c; c.m = m;
    c.ps = ::new (static_cast<void *>(c.buf)) FS(static_cast<const K *>(in), static_cast<const K *>(in + n), m.c);
    for (unsigned i = 0; i < FS_RANGE + 1; ++i) { if (i >= n) break; c.m.insert(in[i]); }
    c.check(false);
    c.finish();
  }
  vf_reach(1);
}
