// One-step harnesses for amc::SmallSet from directly built inline / large states (C04, C11; C05 and C19 clauses for the inline state).
// -D: SS_N (inline capacity), SS_SET (0 FlatSet backing, 1 std::set backing), SS_CMP (0 less, 1 greater), SS_CLS (0 inline, 1 large),
//     SS_KEYS (key domain), SS_LMAX (max elements of a large state)
#ifndef SS_N
#define SS_N 2
#endif
#ifndef SS_SET
#define SS_SET 0
#endif
#ifndef SS_CMP
#define SS_CMP 0
#endif
#ifndef SS_CLS
#define SS_CLS 0
#endif
#ifndef SS_KEYS
#define SS_KEYS 8
#endif
#ifndef SS_LMAX
#define SS_LMAX (SS_N + 2)
#endif
#define VF_MAXM (SS_LMAX + 3)
#include "common.hpp"
#include <set>
#include <optional>
#include <variant>
#include <tuple>
#ifdef SS_STUBSORT
// Environment stub (DESIGN 2.3): contract-level replacements for libstdc++'s sort / inplace_merge used by FlatSet's bulk insert
// (reached through SmallSet::grow()); every other std algorithm stays the real one.
namespace std {
template <class It, class C> void vf_sort(It f, It l, C c) {
  for (It i = f; i != l; ++i)
    for (It j = i; j != f && c(*j, *(j - 1)); --j) { auto t = std::move(*j); *j = std::move(*(j - 1)); *(j - 1) = std::move(t); }
}
template <class It, class C> void vf_inplace_merge(It f, It m, It l, C c) {
  for (It i = m; i != l; ++i)
    for (It j = i; j != f && c(*j, *(j - 1)); --j) { auto t = std::move(*j); *j = std::move(*(j - 1)); *(j - 1) = std::move(t); }
}
}
#define sort vf_sort
#define inplace_merge vf_inplace_merge
#endif
#include "vec_common.hpp"
#include <amc/flatset.hpp>
#include <amc/smallset.hpp>
#ifdef SS_STUBSORT
#undef sort
#undef inplace_merge
#endif

typedef uint8_t K;
typedef amc::BasicAllocatorWrapper<K, vf::LedgerBasic> A;
static unsigned g_cmp;
#if SS_CMP == 0
struct Cmp { bool operator()(K a, K b) const { ++g_cmp; return a < b; } static bool before(K a, K b) { return a < b; } };
#else
struct Cmp { bool operator()(K a, K b) const { ++g_cmp; return a > b; } static bool before(K a, K b) { return a > b; } };
#endif
#if SS_SET == 0
typedef amc::FlatSet<K, Cmp, A> Backing;
typedef amc::vector<K, A> BVec;
VF_ACCESS_STD(AccBV, K, A, uint32_t)
namespace vf { VF_ROB(SS_TBVec, Backing, BVec, _sortedVector); }
#else
typedef std::set<K, Cmp, A> Backing;
#endif
typedef amc::SmallSet<K, SS_N, Cmp, A, Backing> SS;
typedef amc::FixedCapacityVector<K, SS_N, amc::vec::UncheckedGrowingPolicy> IVec;
typedef IVec::size_type IS;
VF_ACCESS_FIXED(AccIV, K, IS)
namespace vf { VF_ROB(SS_TVec, SS, IVec, _vec); VF_ROB(SS_TSet, SS, Backing, _set); }
static IVec &ivec(SS &s) { return s.*get(vf::SS_TVec()); }
static Backing &bset(SS &s) { return s.*get(vf::SS_TSet()); }
using vf::nd8;

struct SetM {     // oracle: bitset over the key domain (comparators here are strict orders on the key itself)
  bool has[SS_KEYS];
  void clear() { for (unsigned i = 0; i < SS_KEYS; ++i) has[i] = false; }
  unsigned count() const { unsigned n = 0; for (unsigned i = 0; i < SS_KEYS; ++i) n += has[i]; return n; }
  bool insert(K k) { bool w = has[k]; has[k] = true; return !w; }
  bool erase(K k) { bool w = has[k]; has[k] = false; return w; }
  unsigned rank(K k) const { unsigned r = 0; for (unsigned i = 0; i < SS_KEYS; ++i) r += has[i] && Cmp::before(static_cast<K>(i), k); return r; }
  K nth(unsigned n) const { for (unsigned i = 0; i < SS_KEYS; ++i) if (has[i] && rank(static_cast<K>(i)) == n) return static_cast<K>(i); return 0; }
};
static K ndkey() { K k = nd8(); vf_assume(k < SS_KEYS); return k; }

struct Ctx {
  alignas(16) uint8_t buf[sizeof(SS)];
  SS *ps; SetM m; bool large0; uint8_t alloc0;
  SS &s() { return *ps; }
  bool is_large() { return !bset(*ps).empty(); }
  void setup(int cls) {
    m.clear();
    ps = ::new (static_cast<void *>(buf)) SS();
    if (cls == 0) {
      // inline: k <= N pairwise inequivalent keys in ANY order (the inline vector is unsorted)
      uint8_t k = nd8(SS_N);
      vf::AccIV::size(ivec(*ps)) = static_cast<IS>(k);
      K *p = ivec(*ps).data();
      for (unsigned i = 0; i < SS_N; ++i) { if (i >= k) break; K x = ndkey(); vf_assume(!m.has[x]); p[i] = x; m.has[x] = true; }
    } else {
      uint8_t k = nd8(SS_LMAX); vf_assume(k >= 1);     // a large set is never empty (it becomes "small" again when drained)
#if SS_SET == 0
      BVec &bv = bset(*ps).*get(vf::SS_TBVec());
      uint8_t c = nd8(SS_LMAX + 1); vf_assume(c >= k);
      K *p = A().allocate(c);
      vf::AccBV::capa(bv) = c; vf::AccBV::size(bv) = k; vf::AccBV::setDyn(bv, p);
      K prev = 0;
      for (unsigned i = 0; i < SS_LMAX; ++i) { if (i >= k) break; K x = ndkey(); if (i > 0) vf_assume(Cmp::before(prev, x)); p[i] = x; prev = x; m.has[x] = true; }
#else
      for (unsigned i = 0; i < SS_LMAX; ++i) { if (i >= k) break; K x = ndkey(); vf_assume(!m.has[x]); bset(*ps).insert(x); m.has[x] = true; }
#endif
    }
    vf_assume(vf::g_abad == 0);
    large0 = cls != 0; alloc0 = vf::g_alloc_calls; g_cmp = 0;
  }
  // full walk begin() -> end(): visits every element exactly once (C11); contents equal the model (C04)
  void check() {
    const SS &f = *ps;
    unsigned n = m.count();
    vf_assert(f.size() == n && f.empty() == (n == 0), 4001);
    bool seen[SS_KEYS]; for (unsigned i = 0; i < SS_KEYS; ++i) seen[i] = false;
    unsigned steps = 0;
    for (SS::const_iterator it = f.begin(); it != f.end(); ++it) {
      if (steps >= VF_MAXM) break;
      K x = *it;
      vf_assert(x < SS_KEYS && m.has[x], 4002);
      vf_assert(!seen[x < SS_KEYS ? x : 0], 11001);          // exactly once
      seen[x < SS_KEYS ? x : 0] = true;
      ++steps;
    }
    vf_assert(steps == n, 11001);
    unsigned rsteps = 0; unsigned acc = 0;
    for (SS::const_reverse_iterator it = f.rbegin(); it != f.rend(); ++it) {
      if (rsteps >= VF_MAXM) break;
      K x = *it;
      vf_assert(x < SS_KEYS && m.has[x], 11002);
      acc += 1u << (x < SS_KEYS ? x : 0);
      ++rsteps;
    }
    unsigned want = 0; for (unsigned i = 0; i < SS_KEYS; ++i) if (m.has[i]) want += 1u << i;
    vf_assert(rsteps == n && acc == want, 11002);
    vf_assert(vf::g_abad == 0, 6001);
  }
  void no_alloc_if_inline() {
    // a set that has never held more than N elements allocates nothing (C05)
    if (!large0 && m.count() <= SS_N) { vf_assert(vf::g_alloc_calls == alloc0, 5005); vf_assert(!is_large(), 5006); }
  }
  void finish() {
    ps->~SS();
    vf_assert(vf::g_abad == 0, 6001);
    vf_assert(vf::blocks_live() == 0, 6004);
  }
};
#define OP(name) extern "C" void h_##name(void)
static void it_designates(Ctx &c, SS::const_iterator it, K v, unsigned id_unused) {
  (void)id_unused;
  vf_assert(it != c.s().end(), 11003);
  if (it != c.s().end()) vf_assert(*it == v, 11003);
}

OP(insert) {
  Ctx c; c.setup(SS_CLS);
  K v = ndkey();
#ifdef SS_FORM
  const uint8_t form = SS_FORM;      // partitioned: one query per overload
#else
  uint8_t form = nd8(3);
#endif
  g_cmp = 0;
  bool second = false; SS::iterator it;
  if (form == 0) { std::pair<SS::iterator, bool> r = c.s().insert(static_cast<const K &>(v)); it = r.first; second = r.second; }
  else if (form == 1) { std::pair<SS::iterator, bool> r = c.s().insert(K(v)); it = r.first; second = r.second; }
  else if (form == 2) { std::pair<SS::iterator, bool> r = c.s().emplace(v); it = r.first; second = r.second; }
  else { it = c.s().insert(c.s().begin(), v); second = !c.m.has[v]; }
  if (!c.large0) vf_assert(g_cmp <= 2 * SS_N + 2 || c.m.count() == SS_N, 19003);
  bool isnew = c.m.insert(v);
  vf_assert(second == isnew, 4003);                  // insertion boolean
  it_designates(c, it, v, 0);                        // returned iterator designates the element (in the state AFTER the call)
  if (!c.large0 && c.is_large()) vf_reach(2);        // crossed from inline to large inside the call
  c.check(); c.no_alloc_if_inline();
  vf_reach(1);
  c.finish();
}
OP(lookup) {
  Ctx c; c.setup(SS_CLS);
  K v = ndkey();
  const SS &f = c.s();
  bool has = c.m.has[v];
  g_cmp = 0; SS::const_iterator it = f.find(v);
  if (!c.large0) vf_assert(g_cmp <= 2 * SS_N + 2, 19003);        // inline lookups: at most 2N + 2 comparator calls
  if (has) it_designates(c, it, v, 0); else vf_assert(it == f.end(), 11003);
  g_cmp = 0; bool ct = f.contains(v); if (!c.large0) vf_assert(g_cmp <= 2 * SS_N + 2, 19003);
  vf_assert(ct == has && f.count(v) == (has ? 1u : 0u), 4004);
  c.check(); c.no_alloc_if_inline();
  vf_reach(1);
  c.finish();
}
OP(erase_key) {
  Ctx c; c.setup(SS_CLS);
  K v = ndkey();
  SS::size_type r = c.s().erase(v);
  bool was = c.m.erase(v);
  vf_assert(r == (was ? 1u : 0u), 4005);
  if (c.large0 && !c.is_large()) vf_reach(2);        // drained back to the small state
  c.check(); c.no_alloc_if_inline();
  vf_reach(1);
  c.finish();
}
// C11: erase(position) returns end() or an iterator to a remaining element, also when it removes the last element of a large set
OP(erase_it) {
  Ctx c; c.setup(SS_CLS);
  unsigned n0 = c.m.count();
  vf_assume(n0 > 0);
  uint8_t p = nd8(static_cast<uint8_t>(n0 - 1));
  SS::const_iterator it = c.s().begin();
  for (unsigned i = 0; i < VF_MAXM; ++i) { if (i >= p) break; ++it; }
  K victim = *it;
  SS::iterator r = c.s().erase(it);
  c.m.erase(victim);
  if (r != c.s().end()) { K x = *r; vf_assert(x < SS_KEYS && c.m.has[x], 11004); }      // designates a remaining element ...
  // ... and the walk from it reaches end() within the remaining elements
  unsigned steps = 0;
  for (SS::const_iterator w = r; w != c.s().end(); ++w) { if (steps > VF_MAXM) break; ++steps; }
  vf_assert(steps <= c.m.count(), 11004);
  c.check(); c.no_alloc_if_inline();
  vf_reach(1);
  c.finish();
}
// erase(first, last): same contract for the returned iterator, also when the range drains a large set
OP(erase_range) {
  Ctx c; c.setup(SS_CLS);
  unsigned n0 = c.m.count();
  uint8_t a = nd8(static_cast<uint8_t>(n0)), b = nd8(static_cast<uint8_t>(n0));
  vf_assume(a <= b);
  SS::const_iterator first = c.s().begin(), last = c.s().begin();
  K victims[VF_MAXM]; unsigned nv = 0;
  for (unsigned i = 0; i < VF_MAXM; ++i) { if (i >= b) break; if (i < a) ++first; else victims[nv++] = *last; ++last; }
  SS::iterator r = c.s().erase(first, last);
  for (unsigned i = 0; i < VF_MAXM; ++i) { if (i >= nv) break; c.m.erase(victims[i]); }
  if (r != c.s().end()) { K x = *r; vf_assert(x < SS_KEYS && c.m.has[x < SS_KEYS ? x : 0], 11004); }
  unsigned steps = 0;
  for (SS::const_iterator w = r; w != c.s().end(); ++w) { if (steps > VF_MAXM) break; ++steps; }
  vf_assert(steps <= c.m.count(), 11004);        // the walk from the returned iterator reaches end() within the remaining elements
  if (c.large0 && !c.is_large()) vf_reach(2);
  c.check(); c.no_alloc_if_inline();
  vf_reach(1);
  c.finish();
}
// the standard erase-while-iterating loop terminates having visited every element
OP(erase_loop) {
  Ctx c; c.setup(SS_CLS);
  unsigned n0 = c.m.count();
  uint8_t keepmask = nd8();
  unsigned visited = 0, steps = 0;
  bool seen[SS_KEYS]; for (unsigned i = 0; i < SS_KEYS; ++i) seen[i] = false;
  for (SS::const_iterator it = c.s().begin(); it != c.s().end();) {
    if (steps > VF_MAXM) break;           // step cap: a runaway walk is reported below, not explored for ever
    ++steps;
    K x = *it;
    vf_assert(x < SS_KEYS && c.m.has[x < SS_KEYS ? x : 0] && !seen[x < SS_KEYS ? x : 0], 11005);
    seen[x < SS_KEYS ? x : 0] = true; ++visited;
    if ((keepmask >> (x & 7)) & 1) ++it;
    else { it = c.s().erase(it); c.m.erase(x); }
  }
  vf_assert(steps == n0 && visited == n0, 11005);
  if (c.large0 && !c.is_large()) vf_reach(2);
  c.check();
  vf_reach(1);
  c.finish();
}
OP(clear) {
  Ctx c; c.setup(SS_CLS);
  c.s().clear(); c.m.clear();
  vf_assert(!c.is_large(), 4001);
  c.check();
  // drained: refilling works as from a fresh set
  K v = ndkey(); c.s().insert(v); c.m.insert(v);
  c.check();
  vf_reach(1);
  c.finish();
}
OP(insert_range) {
  Ctx c; c.setup(SS_CLS);
  K in[3]; uint8_t n = nd8(2);
  for (unsigned i = 0; i < 3; ++i) in[i] = ndkey();
  bool il = nd8(1);
  if (il && n == 2) c.s().insert({in[0], in[1]}); else c.s().insert(static_cast<const K *>(in), static_cast<const K *>(in + n));
  for (unsigned i = 0; i < 2; ++i) { if (i >= n) break; c.m.insert(in[i]); }
  c.check(); c.no_alloc_if_inline();
  vf_reach(1);
  c.finish();
}
OP(node) {
  Ctx c; c.setup(SS_CLS);
  K v = ndkey();
#ifdef SS_FORM
  const bool bykey = (SS_FORM & 1) != 0;
#else
  bool bykey = nd8(1);
#endif
  bool has = c.m.has[v];
  SS::node_type nh;
  if (bykey) { nh = c.s().extract(v); vf_assert(nh.empty() == !has, 4006); if (has) { vf_assert(nh.value() == v, 4006); c.m.erase(v); } }
#if SS_SET == 1
  // (extract(const_iterator) does not compile for a FlatSet-backed SmallSet - pointer iterators have no toVecIt(): compile-time gap, noted in DESIGN.md)
  else { vf_assume(has); SS::const_iterator it = c.s().find(v); nh = c.s().extract(it); vf_assert(!nh.empty() && nh.value() == v, 4006); c.m.erase(v); }
#else
  else { vf_assume(has); nh = c.s().extract(v); vf_assert(!nh.empty() && nh.value() == v, 4006); c.m.erase(v); }
#endif
  c.check();
  // offer the node to a set that may or may not hold an equivalent element
  K w = ndkey();
#ifdef SS_FORM
  const bool pre = (SS_FORM & 2) != 0;
#else
  bool pre = nd8(1);
#endif
  if (pre) { c.s().insert(w); c.m.insert(w); }
  bool emptyNode = nh.empty();
  K nv = emptyNode ? 0 : nh.value();
  bool was = !emptyNode && c.m.has[nv];
  SS::insert_return_type r = c.s().insert(std::move(nh));
  if (emptyNode) vf_assert(!r.inserted && r.node.empty(), 4007);
  else if (was) { vf_assert(!r.inserted && !r.node.empty() && r.node.value() == nv, 4007); vf_reach(2); }   // node keeps its value
  else { c.m.insert(nv); vf_assert(r.inserted && r.node.empty(), 4007); it_designates(c, r.position, nv, 0); }
  c.check();
  vf_reach(1);
  c.finish();
}
struct Two {
  Ctx a, b;
  void setup(int ca, int cb) { a.setup(ca); b.setup(cb); a.alloc0 = b.alloc0 = vf::g_alloc_calls; }
  void finish() { b.ps->~SS(); a.ps->~SS(); vf_assert(vf::g_abad == 0, 6001); vf_assert(vf::blocks_live() == 0, 6004); }
};
#ifndef SS_CLS2
#define SS_CLS2 0
#endif
OP(swap) {
  Two t; t.setup(SS_CLS, SS_CLS2);
  bool which = nd8(1);
  if (which) t.a.s().swap(t.b.s()); else { using std::swap; swap(t.a.s(), t.b.s()); }
  SetM tmp = t.a.m; t.a.m = t.b.m; t.b.m = tmp;
  t.a.check(); t.b.check();
  if (SS_CLS == 0 && SS_CLS2 == 0) vf_assert(vf::g_alloc_calls == t.a.alloc0, 5005);
  vf_reach(1);
  t.finish();
}
OP(compare) {
  Two t; t.setup(SS_CLS, SS_CLS2);
  const SS &x = t.a.s(), &y = t.b.s();
  bool eq = true; for (unsigned i = 0; i < SS_KEYS; ++i) if (t.a.m.has[i] != t.b.m.has[i]) eq = false;
  // std::set compares the sorted element sequences lexicographically with operator< on the elements
  // (sorted sequences built in one pass over the key domain: the comparator is a strict order on the key itself)
  K sa[SS_KEYS], sb[SS_KEYS]; unsigned na = 0, nb = 0;
  for (unsigned j = 0; j < SS_KEYS; ++j) {
    unsigned k = SS_CMP == 0 ? j : SS_KEYS - 1 - j;
    if (t.a.m.has[k]) sa[na++] = static_cast<K>(k);
    if (t.b.m.has[k]) sb[nb++] = static_cast<K>(k);
  }
  bool lt = false, decided = false;
  for (unsigned i = 0; i < SS_KEYS; ++i) {
    if (i >= na || i >= nb) break;
    if (sa[i] != sb[i] && !decided) { lt = sa[i] < sb[i]; decided = true; }
  }
  if (!decided) lt = na < nb;
  vf_assert((x == y) == eq && (x != y) == !eq, 4008);
#if SS_CMP == 0
  vf_assert((x < y) == lt && (y > x) == lt && (x >= y) == !lt && (y <= x) == !lt, 4008);
#endif
  t.a.check(); t.b.check();
  if (SS_CLS == 0 && SS_CLS2 == 0) vf_assert(vf::g_alloc_calls == t.a.alloc0, 5005);
  vf_reach(1);
  t.finish();
}
// equality alone (no sorting involved), every combination of states; both operand orders are reached through the
// (SS_CLS, SS_CLS2) partitions, != is !(==) in the source and is exercised by OP(compare)
OP(compare_eq) {
  Two t; t.setup(SS_CLS, SS_CLS2);
  const SS &x = t.a.s(), &y = t.b.s();
  bool eq = true; for (unsigned i = 0; i < SS_KEYS; ++i) if (t.a.m.has[i] != t.b.m.has[i]) eq = false;
  vf_assert((x == y) == eq, 4008);
  vf_reach(1);
  t.finish();
}
OP(copy_move) {
  Ctx c; c.setup(SS_CLS);
  uint8_t form = nd8(3);
  {
    alignas(16) uint8_t buf2[sizeof(SS)];
    SS *w; Ctx d; d.m = c.m;
    if (form == 0) w = ::new (static_cast<void *>(buf2)) SS(c.s());
    else if (form == 1) { w = ::new (static_cast<void *>(buf2)) SS(std::move(c.s())); c.m.clear(); }
    else if (form == 2) { w = ::new (static_cast<void *>(buf2)) SS(); *w = c.s(); }
    else { w = ::new (static_cast<void *>(buf2)) SS(); *w = std::move(c.s()); c.m.clear(); }
    d.ps = w; d.large0 = c.large0;
    d.check();
    if (form == 0 || form == 2) c.check();
    else { vf_assert(c.s().empty() && c.s().size() == 0, 4001); c.check(); }
    if (!c.large0) vf_assert(vf::g_alloc_calls == c.alloc0, 5005);
    w->~SS();
  }
  vf_reach(1);
  c.finish();
}
// merge between sets of different inline capacity
typedef amc::SmallSet<K, SS_N + 1, Cmp, A, Backing> SS2;
OP(merge) {
  Ctx c; c.setup(SS_CLS);
  SetM om; om.clear();
  {
    SS2 o;
    uint8_t k = nd8(SS_N + 2);     // up to N+2 elements: 'o' itself may be inline (<= N+1) or large
    for (unsigned i = 0; i < SS_N + 2; ++i) { if (i >= k) break; K x = ndkey(); o.insert(x); om.has[x] = true; }
    uint8_t a0 = vf::g_alloc_calls;
    unsigned total = 0; for (unsigned i = 0; i < SS_KEYS; ++i) total += (c.m.has[i] || om.has[i]);
    c.s().merge(o);
    for (unsigned i = 0; i < SS_KEYS; ++i) { if (om.has[i] && !c.m.has[i]) { c.m.has[i] = true; om.has[i] = false; } }
    c.check();
    // what stays in 'o' is exactly what was already present
    unsigned on = 0; for (unsigned i = 0; i < SS_KEYS; ++i) on += om.has[i];
    vf_assert(o.size() == on, 4009);
    for (unsigned i = 0; i < SS_KEYS; ++i) vf_assert(o.contains(static_cast<K>(i)) == om.has[i], 4009);
    if (!c.large0 && k <= SS_N + 1 && total <= SS_N) vf_assert(vf::g_alloc_calls == a0, 5005);   // merge of inline sets staying within N allocates nothing
  }
  vf_reach(1);
  c.finish();
}
