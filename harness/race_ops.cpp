// C20: sufficient condition for race freedom of concurrent const access, decided by the solver:
//   (a) no store executed by a const operation lands in memory shared between threads (the container object, its heap
//       block, the other operand of a binary const operation);
//   (b) a mutating operation on container A never writes into an unrelated container B (object or heap block).
// The translator routes every store / mem* of the lowered code through vf_on_write(ptr, len) (ir2c --hook-stores).
// No shared writes => no interleaving of readers can race (standard argument, stated as an assumption of the claim).
// -D: RC_KIND (0 vector, 1 SmallVector<B,2>, 2 FixedCapacityVector<B,3>, 3 FlatSet over amc::vector, 4 SmallSet<B,2,FlatSet>), RC_CLS
#ifndef RC_KIND
#define RC_KIND 1
#endif
#ifndef RC_CLS
#define RC_CLS 2
#endif
#define VF_MAXM 8
#include "common.hpp"
#include <set>
#include <optional>
#include <variant>
#include <tuple>
#if RC_KIND == 4
// Environment stub (DESIGN 2.3): SmallSet::operator< sorts a local pointer vector with std::sort; contract stub (insertion sort)
namespace std {
template <class It, class C> void vf_sort(It f, It l, C c) {
  for (It i = f; i != l; ++i)
    for (It j = i; j != f && c(*j, *(j - 1)); --j) { auto t = std::move(*j); *j = std::move(*(j - 1)); *(j - 1) = std::move(t); }
}
template <class It, class C> void vf_inplace_merge(It f, It m, It l, C c) { vf_sort(f, l, c); (void)m; }
}
#define sort vf_sort
#define inplace_merge vf_inplace_merge
#endif
#include "vec_common.hpp"
#include <amc/flatset.hpp>
#include <amc/smallset.hpp>
#if RC_KIND == 4
#undef sort
#undef inplace_merge
#endif
using vf::nd8; using vf::Seq;

static uint8_t g_watch, g_wbad, g_nreg;
static uintptr_t g_lo[6], g_hi[6];
extern "C" void vf_on_write(uint8_t *p, uint64_t n) {
  if (!g_watch || n == 0) return;
  uintptr_t a = reinterpret_cast<uintptr_t>(p);
  for (unsigned k = 0; k < 6; ++k) { if (k >= g_nreg) break; if (a < g_hi[k] && a + n > g_lo[k]) g_wbad = 1; }
}
static void share(const void *p, size_t n) { if (p != nullptr && n != 0 && g_nreg < 6) { g_lo[g_nreg] = vf::addr(p); g_hi[g_nreg] = vf::addr(p) + n; ++g_nreg; } }
#define WATCH(stmt) do { g_watch = 1; stmt; g_watch = 0; } while (0)
#define OP(name) extern "C" void h_##name(void)

typedef vf::B E;
typedef amc::BasicAllocatorWrapper<E, vf::LedgerBasic> A;
#if RC_KIND == 0 || RC_KIND == 3
typedef uint32_t S; typedef amc::vector<E, A, S> V; VF_ACCESS_STD(Acc, E, A, S)
#define VKIND 0
#define VN 0
#elif RC_KIND == 1
typedef uint8_t S; typedef amc::SmallVector<E, 2, A, S> V; VF_ACCESS_SMALL(Acc, E, A, S)
#define VKIND 1
#define VN 2
#else
typedef amc::FixedCapacityVector<E, 3> V; typedef V::size_type S; VF_ACCESS_FIXED(Acc, E, S)
#define VKIND 2
#define VN 3
#endif
struct Cfg { typedef ::E E; typedef ::A A; typedef ::S S; typedef ::V V; typedef vf::Acc Acc; static const int kind = VKIND; static const unsigned N = VN; static const unsigned CMAX = VKIND == 2 ? 3 : 4; };
typedef vf::Ctx<Cfg> Ctx;
static void share_vec(Ctx &c) { share(c.pv, sizeof(V)); if (!c.is_inline()) share(c.v().data(), c.v().capacity() * sizeof(E)); }

#if RC_KIND <= 2
OP(vec_const) {
  Ctx c; c.setup(RC_CLS);
  share_vec(c);
  const V &w = c.v();
  uint8_t i = nd8(); unsigned acc = 0;
  WATCH(acc += w.size(); acc += w.empty(); acc += w.capacity(); acc += static_cast<unsigned>(w.max_size() != 0));
  WATCH(for (V::const_iterator it = w.begin(); it != w.end(); ++it) acc += *it);
  WATCH(for (V::const_reverse_iterator it = w.rbegin(); it != w.rend(); ++it) acc += *it);
  if (i < c.m.n) { WATCH(acc += w[static_cast<S>(i)]; acc += w.at(static_cast<S>(i)); acc += w.front(); acc += w.back(); acc += *w.data()); }
  else { bool threw = false; WATCH(try { acc += w.at(static_cast<S>(i)); } catch (const std::out_of_range &) { threw = true; }); vf_assert(threw, 20003); }
  // copy construction FROM the shared container: writes go to the new object only
  { alignas(16) uint8_t b2[sizeof(V)]; V *x = nullptr; WATCH(x = ::new (static_cast<void *>(b2)) V(w)); acc += x->size(); x->~V(); }
  vf_assert(g_wbad == 0, 20001);
  c.check_contents(c.m);
  (void)acc;
  vf_reach(1);
  c.finish();
}
OP(vec_const_binary) {
  Ctx a, b; a.setup(RC_CLS); b.setup(2);
  share_vec(a); share_vec(b);
  const V &x = a.v(), &y = b.v();
  bool r1 = false, r2 = false, r3 = false;
  WATCH(r1 = x == y; r2 = x < y; r3 = x != y);
  vf_assert(g_wbad == 0, 20001);
  vf_assert(r1 == a.m.equals(b.m) && r2 == a.m.less(b.m) && r3 == !r1, 20003);
  vf_reach(1);
  b.pv->~V(); a.pv->~V();
}
// mutating A never writes into an unrelated container B
OP(vec_mutate_other) {
  Ctx a, b; a.setup(RC_CLS); b.setup(2);
  share_vec(b);                       // only B is "someone else's"
  uint8_t op = nd8(7), x = nd8(), pos = nd8(a.m.n), cnt = nd8(2);
  try {
    if (op == 0) WATCH(a.v().push_back(x));
    else if (op == 1) WATCH(a.v().insert(a.v().begin() + pos, static_cast<S>(cnt), x));
    else if (op == 2) { if (a.m.n > 0 && pos < a.m.n) WATCH(a.v().erase(a.v().begin() + pos)); }
    else if (op == 3) WATCH(a.v().resize(static_cast<S>(cnt + 1u), x));
    else if (op == 4) WATCH(a.v().clear());
    else if (op == 5) WATCH(a.v().shrink_to_fit());
    else if (op == 6) WATCH(a.v().assign(static_cast<S>(cnt), x));
    else { alignas(16) uint8_t b2[sizeof(V)]; V *t = nullptr; WATCH(t = ::new (static_cast<void *>(b2)) V(std::move(a.v()))); t->~V(); }
  } catch (const std::out_of_range &) { g_watch = 0; }
  vf_assert(g_wbad == 0, 20002);
  b.check_contents(b.m);
  vf_reach(1);
  b.pv->~V(); a.pv->~V();
}
#elif RC_KIND == 3
static unsigned g_cmpc;
struct Cmp { bool operator()(E a, E b) const { return a < b; } };
typedef amc::FlatSet<E, Cmp, A, V> FS;
namespace vf { VF_ROB(RC_TVec, FS, V, _sortedVector); }
OP(fs_const) {
  alignas(16) uint8_t buf[sizeof(FS)];
  FS *ps = ::new (static_cast<void *>(buf)) FS();
  V &v = ps->*get(vf::RC_TVec());
  Seq q; vf::BuildK<Cfg, 0>::run(v, q, RC_CLS);
  for (unsigned i = 1; i < VF_MAXM; ++i) { if (i >= q.n) break; vf_assume(q.a[i - 1] < q.a[i]); }
  share(ps, sizeof(FS)); share(v.data(), v.capacity() * sizeof(E));
  const FS &f = *ps;
  E k = nd8(); unsigned acc = 0;
  WATCH(acc += f.size(); acc += f.empty(); acc += f.contains(k); acc += f.count(k); acc += static_cast<unsigned>(f.find(k) - f.begin()));
  WATCH(acc += static_cast<unsigned>(f.lower_bound(k) - f.begin()); acc += static_cast<unsigned>(f.upper_bound(k) - f.begin()); acc += static_cast<unsigned>(f.equal_range(k).second - f.begin()));
  WATCH(for (FS::const_iterator it = f.begin(); it != f.end(); ++it) acc += *it);
  { alignas(16) uint8_t b2[sizeof(FS)]; FS *x = nullptr; WATCH(x = ::new (static_cast<void *>(b2)) FS(f)); bool e = false; WATCH(e = (*x == f)); vf_assert(e, 20003); x->~FS(); }
  vf_assert(g_wbad == 0, 20001);
  (void)acc; (void)g_cmpc;
  vf_reach(1);
  ps->~FS();
}
#else
struct Cmp { bool operator()(E a, E b) const { return a < b; } };
typedef amc::FlatSet<E, Cmp, A> Backing;
typedef amc::SmallSet<E, 2, Cmp, A, Backing> SS;
typedef amc::FixedCapacityVector<E, 2, amc::vec::UncheckedGrowingPolicy> IVec;
VF_ACCESS_FIXED(AccIV, E, IVec::size_type)
namespace vf { VF_ROB(RC_TIV, SS, IVec, _vec); }
OP(ss_const) {
  alignas(16) uint8_t buf[sizeof(SS)], buf2[sizeof(SS)];
  SS *ps = ::new (static_cast<void *>(buf)) SS();
  SS *po = ::new (static_cast<void *>(buf2)) SS();
  // inline states with symbolic, pairwise distinct keys in any order
  { uint8_t k = nd8(2); IVec &iv = ps->*get(vf::RC_TIV()); vf::AccIV::size(iv) = k; E *p = iv.data(); for (unsigned i = 0; i < 2; ++i) { if (i >= k) break; p[i] = nd8(); } if (k == 2) vf_assume(p[0] != p[1]); }
  { uint8_t k = nd8(2); IVec &iv = po->*get(vf::RC_TIV()); vf::AccIV::size(iv) = k; E *p = iv.data(); for (unsigned i = 0; i < 2; ++i) { if (i >= k) break; p[i] = nd8(); } if (k == 2) vf_assume(p[0] != p[1]); }
  share(ps, sizeof(SS)); share(po, sizeof(SS));
  const SS &f = *ps, &o = *po;
  E k = nd8(); unsigned acc = 0;
  WATCH(acc += f.size(); acc += f.empty(); acc += f.contains(k); acc += f.count(k); acc += static_cast<unsigned>(f.find(k) != f.end()));
  WATCH(for (SS::const_iterator it = f.begin(); it != f.end(); ++it) acc += *it);
  bool lt = false, eq = false;
  WATCH(lt = f < o; eq = f == o);          // operator< sorts pointers into a LOCAL vector: nothing shared is written
  vf_assert(g_wbad == 0, 20001);
  (void)acc; (void)lt; (void)eq;
  vf_reach(1);
  po->~SS(); ps->~SS();
}
#endif
