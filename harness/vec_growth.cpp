// C18: geometric growth.  (1) full-width lemma on the real SafeNextCapacity<S>; (2) bounded append loop with a counting allocator.
// -D: GR_KIND (0 vector, 1 SmallVector<E,2>), GR_AK (0 LA realloc path, 1 SA allocate+relocate path), GR_E (B | R | X), GR_NMAX, GR_START (0 empty, 1 inline/partial symbolic state, 2 after reserve(r))
#ifndef GR_KIND
#define GR_KIND 0
#endif
#ifndef GR_AK
#define GR_AK 0
#endif
#ifndef GR_E
#define GR_E B
#endif
#ifndef GR_NMAX
#define GR_NMAX 64
#endif
#ifndef GR_START
#define GR_START 0
#endif
#ifndef GR_RESERVE
#define GR_RESERVE 5
#endif
#define VF_MAXM 4
#include "vec_common.hpp"
using vf::nd8;
#define OP(name) extern "C" void h_##name(void)

// ---- (1) kernel lemma, one entry per size_type
template <class S> static void next_capacity_lemma() {
  typedef unsigned __int128 U128;
  const uintmax_t SMAX = static_cast<uintmax_t>(std::numeric_limits<S>::max());
  uintmax_t oldc = vf_nondet_u64(), needed = vf_nondet_u64();
  bool exact = nd8(1);
  vf_assume(oldc <= SMAX && needed > oldc);            // grow() is only called when more is needed than the capacity
  if (exact) vf_assume(needed <= SMAX);                 // reserve() takes a size_type
  bool threw = false; S r = 0;
  try { r = amc::vec::SafeNextCapacity<S>(static_cast<S>(oldc), needed, exact); } catch (const std::overflow_error &) { threw = true; }
  if (exact) { vf_assert(!threw && static_cast<uintmax_t>(r) == needed, 18001); vf_reach(2); }
  else if (needed > SMAX) { vf_assert(threw, 18001); vf_reach(3); }          // throws exactly when the need exceeds the size_type
  else {
    vf_assert(!threw, 18001);
    uintmax_t rr = static_cast<uintmax_t>(r);
    vf_assert(rr >= needed && rr <= SMAX, 18001);      // enough, and no wrap-around
    U128 geo = (static_cast<U128>(3) * oldc + 1) / 2;   // ceil(1.5 * old) without overflow
    if (static_cast<U128>(3) * oldc + 1 <= static_cast<U128>(~static_cast<uintmax_t>(0))) {   // beyond that the 64-bit computation wraps: sizes no machine reaches, outside the claim
      uintmax_t g = static_cast<uintmax_t>(geo);
      if (g > SMAX) g = SMAX;
      vf_assert(rr == (g > needed ? g : needed), 18002);   // factor 1.5 unless limited by the size_type or exceeded by the need
    }
    vf_reach(4);
  }
  vf_reach(1);
}
OP(next_capacity_u8) { next_capacity_lemma<uint8_t>(); }
OP(next_capacity_i8) { next_capacity_lemma<int8_t>(); }
OP(next_capacity_u16) { next_capacity_lemma<uint16_t>(); }
OP(next_capacity_i16) { next_capacity_lemma<int16_t>(); }
OP(next_capacity_u32) { next_capacity_lemma<uint32_t>(); }
OP(next_capacity_i32) { next_capacity_lemma<int32_t>(); }
OP(next_capacity_u64) { next_capacity_lemma<uint64_t>(); }

// ---- (2) append loop
typedef vf::GR_E E;
#if GR_AK == 0
typedef amc::BasicAllocatorWrapper<E, vf::LedgerBasic> A;
#else
typedef vf::SA<E> A;
#endif
typedef uint32_t S;
#if GR_KIND == 1
typedef amc::SmallVector<E, 2, A, S> V;
VF_ACCESS_SMALL(Acc, E, A, S)
#else
typedef amc::vector<E, A, S> V;
VF_ACCESS_STD(Acc, E, A, S)
#endif
struct Cfg { typedef ::E E; typedef ::A A; typedef ::S S; typedef ::V V; typedef vf::Acc Acc; static const int kind = GR_KIND; static const unsigned N = GR_KIND ? 2 : 0; static const unsigned CMAX = 3; };
static unsigned ceil_log2(unsigned x) { unsigned r = 0; while ((1u << r) < x) ++r; return r; }

OP(append_loop) {
  alignas(16) uint8_t buf[sizeof(V)];
  V *pv = ::new (static_cast<void *>(buf)) V();
  V &v = *pv;
  vf::Seq m; m.n = 0;
#if GR_START == 1
  vf::BuildK<Cfg, GR_KIND>::run(v, m, vf::CLS_ANY);
#elif GR_START == 2
  v.reserve(GR_RESERVE);      // concrete per query (a symbolic reserve size makes every later capacity symbolic: no verdict)
#endif
  unsigned c0 = static_cast<unsigned>(v.capacity()), s0 = static_cast<unsigned>(v.size());
  uint8_t a0 = vf::g_alloc_calls;
  uint8_t n = nd8(GR_NMAX);
  unsigned maxcap = c0;
  bool mono = true;
  for (unsigned i = 0; i < n; ++i) {            // symbolic bound in the loop condition: the continuing path stays concrete
    unsigned before = static_cast<unsigned>(v.capacity());
    v.push_back(vf::Elem<E>::make(static_cast<uint8_t>(i)));
    unsigned after = static_cast<unsigned>(v.capacity());
    if (after != before) {
      // each growth step is by at least the factor 1.5 (rounded up)
      if (!(2 * after >= 3 * before)) mono = false;
    }
  }
  vf_assert(mono, 18006);
  unsigned reallocs = static_cast<uint8_t>(vf::g_alloc_calls - a0);
  vf_assert(v.size() == s0 + n, 18007);
  if (n >= 1) vf_assert(reallocs <= 2 * ceil_log2(n) + 4, 18008);         // O(log n) reallocations
  else vf_assert(reallocs == 0, 18008);
  // O(n) relocations in total: the buffers given up sum to less than 3 * final capacity
  vf_assert(vf::g_released_bytes <= 3u * sizeof(E) * (static_cast<unsigned>(v.capacity()) + 1u), 18009);
  vf_assert(static_cast<unsigned>(v.capacity()) <= 2 * (s0 + n) + c0 + 2, 18009);   // capacity stays proportional to the size
  if (n > 0) vf_assert(vf::Elem<E>::val(v[static_cast<S>(s0 + n - 1)]) == static_cast<uint8_t>(n - 1) && vf::Elem<E>::val(v[static_cast<S>(s0)]) == 0, 18007);
  vf_reach(1);
  pv->~V();
  vf_assert(vf::g_abad == 0 && vf::blocks_live() == 0 && vf::g_bad == 0, 18007);
}
