// Common definitions for all verification harnesses (C++11-clean: also compiled with -std=c++11 for C15/C16).
// Everything here is lowered to LLVM IR together with the amc headers and translated to C by engine/ir2c.py.
#pragma once
#include <algorithm>
#include <cassert>
#include <cstddef>
#include <cstdint>
#include <cstring>
#include <functional>
#include <initializer_list>
#include <iterator>
#include <limits>
#include <memory>
#include <new>
#include <stdexcept>
#include <type_traits>
#include <utility>

extern "C" {
uint8_t vf_nondet_u8(void);
uint16_t vf_nondet_u16(void);
uint32_t vf_nondet_u32(void);
uint64_t vf_nondet_u64(void);
void vf_assume(bool c);
void vf_assert(bool c, unsigned id);
void vf_reach(unsigned id);
uint8_t *vf_malloc(uint64_t n);
void vf_free_(uint8_t *p);
uint8_t *vf_realloc_(uint8_t *p, uint64_t n);
void vf_havoc(uint8_t *p, uint64_t n);
void vf_obs(uint32_t v);     // observation appended to the transcript (C16 miter); no-op elsewhere
}

namespace vf {

static inline uint8_t nd8() { return vf_nondet_u8(); }
static inline uint8_t nd8(uint8_t maxIncl) { uint8_t x = vf_nondet_u8(); vf_assume(x <= maxIncl); return x; }
static inline uintptr_t addr(const void *p) { return reinterpret_cast<uintptr_t>(p); }

// ------------------------------------------------------------------------------------------------ fault injection
struct Fault {};
static uint8_t g_fault_at;  // 0 = never; k = the k-th throwing event throws
static uint8_t g_events;
#ifdef VF_FAULTS
static inline void fault_point() {
  if (g_fault_at != 0 && ++g_events == g_fault_at) throw Fault();
}
#else
static inline void fault_point() {}
#endif

// ------------------------------------------------------------------------------------------------ element ledger (C02)
// Violation codes kept in g_bad (first one wins):
enum {
  BAD_SELF = 1,        // object used at an address other than the one it was constructed at (moved by raw bytes)
  BAD_DEAD = 2,        // read / assign / destroy of an object outside its lifetime (incl. double destroy)
  BAD_MOVED_READ = 3,  // value read (copy / move) out of a moved-from object
  BAD_SELF_MOVE = 4,   // move-assignment onto itself
  BAD_IDS = 5,         // identity pool exhausted (bound of the harness, reported separately)
  BAD_SELF_COPY = 6    // (not flagged: copy self-assignment is what std::vector::assign(n, v[i]) does as well)
};
#ifndef VF_NID
#define VF_NID 16
#endif
static uint8_t g_st[VF_NID];  // 0 dead, 1 alive, 2 alive but moved-from
static uint8_t g_nextid;
static uint8_t g_bad;
static uint8_t g_idbound;   // identity pool exhausted
static uint16_t g_ops;      // element operations performed (ctor, copy, move, assign, dtor) -- C07 "no element operation"

static inline void bad(uint8_t code) {
  if (g_bad == 0) g_bad = code;
}
static uint8_t g_alive;     // number of element objects alive (maintained incrementally: O(1) instead of a ledger scan)
static inline uint8_t alive_count() { return g_alive; }
static inline uint8_t new_id() {
  uint8_t id = g_nextid;
  if (id >= VF_NID) {
    g_idbound = 1;
    vf_assert(false, 99001);  // bound of the harness (identity pool): reported as 'bound hit', makes the query inconclusive
    vf_assume(false);
  }
  ++g_nextid;
  g_st[id] = 1;
  ++g_alive;
  return id;
}

// B: plain byte.  W: 32-bit word.  T3: 3-byte trivially copyable struct (not pointer aligned).
typedef uint8_t B;
typedef uint32_t W;
struct T3 {
  uint8_t a, b, c;
};

// R: declares itself trivially relocatable; non-trivial special members; identity survives memmove.
struct R {
  typedef std::true_type trivially_relocatable;
  uint8_t id;
  uint8_t val;
  void check() const {
    if (id >= VF_NID || g_st[id] == 0) bad(BAD_DEAD);
  }
  void checksrc() const {
    check();
    if (id < VF_NID && g_st[id] == 2) bad(BAD_MOVED_READ);
  }
  R() : val(0) { ++g_ops; fault_point(); id = new_id(); }
  explicit R(uint8_t v) : val(v) { ++g_ops; fault_point(); id = new_id(); }
  R(const R &o) : val(o.val) { ++g_ops; o.checksrc(); fault_point(); id = new_id(); }
  R(R &&o) noexcept : val(o.val) { ++g_ops; o.checksrc(); id = new_id(); if (o.id < VF_NID) g_st[o.id] = 2; }
  R &operator=(const R &o) {
    ++g_ops; check(); o.checksrc();
    fault_point();
    val = o.val; if (id < VF_NID) g_st[id] = 1;
    return *this;
  }
  R &operator=(R &&o) noexcept {
    ++g_ops; check(); o.checksrc();
    if (this == &o) bad(BAD_SELF_MOVE);
    else { val = o.val; if (id < VF_NID) g_st[id] = 1; if (o.id < VF_NID) g_st[o.id] = 2; }
    return *this;
  }
  ~R() { ++g_ops; check(); if (id < VF_NID && g_st[id] != 0) { g_st[id] = 0; --g_alive; } }
};

// X: not relocatable: remembers (a 32-bit fold of) its own address, checked by every member: raw byte moves are detected.
// (A folded integer instead of an X* keeps the object at 8 bytes and the solver's byte-level memory model small.)
static inline uint32_t fold(const void *p) {
  uintptr_t a = reinterpret_cast<uintptr_t>(p);
  return static_cast<uint32_t>(a) ^ static_cast<uint32_t>(a >> 32);
}
struct X {
  uint32_t self;
  uint8_t id;
  uint8_t val;
  bool at_home() const { return self == fold(this); }
  void check() const {
    if (!at_home()) bad(BAD_SELF);
    else if (id >= VF_NID || g_st[id] == 0) bad(BAD_DEAD);
  }
  void checksrc() const {
    check();
    if (id < VF_NID && g_st[id] == 2) bad(BAD_MOVED_READ);
  }
  X() : self(fold(this)), val(0) { ++g_ops; fault_point(); id = new_id(); }
  explicit X(uint8_t v) : self(fold(this)), val(v) { ++g_ops; fault_point(); id = new_id(); }
  X(const X &o) : self(fold(this)), val(o.val) { ++g_ops; o.checksrc(); fault_point(); id = new_id(); }
  X(X &&o) noexcept : self(fold(this)), val(o.val) { ++g_ops; o.checksrc(); id = new_id(); if (o.id < VF_NID) g_st[o.id] = 2; }
  X &operator=(const X &o) {
    ++g_ops; check(); o.checksrc();
    fault_point();
    val = o.val; if (id < VF_NID) g_st[id] = 1;
    return *this;
  }
  X &operator=(X &&o) noexcept {
    ++g_ops; check(); o.checksrc();
    if (this == &o) bad(BAD_SELF_MOVE);
    else { val = o.val; if (id < VF_NID) g_st[id] = 1; if (o.id < VF_NID) g_st[o.id] = 2; }
    return *this;
  }
  ~X() { ++g_ops; check(); if (at_home() && id < VF_NID && g_st[id] != 0) { g_st[id] = 0; --g_alive; } }
};

// Y: as X (not relocatable, remembers its own address), but its copy operations are noexcept and never fault: the library then
// selects the code paths reserved for types whose copies cannot throw (e.g. shift-and-fill in insert(pos, n, v)).
struct Y {
  uint32_t self;
  uint8_t id;
  uint8_t val;
  bool at_home() const { return self == fold(this); }
  void check() const {
    if (!at_home()) bad(BAD_SELF);
    else if (id >= VF_NID || g_st[id] == 0) bad(BAD_DEAD);
  }
  void checksrc() const {
    check();
    if (id < VF_NID && g_st[id] == 2) bad(BAD_MOVED_READ);
  }
  Y() noexcept : self(fold(this)), val(0) { ++g_ops; id = new_id(); }
  explicit Y(uint8_t v) noexcept : self(fold(this)), val(v) { ++g_ops; id = new_id(); }
  Y(const Y &o) noexcept : self(fold(this)), val(o.val) { ++g_ops; o.checksrc(); id = new_id(); }
  Y(Y &&o) noexcept : self(fold(this)), val(o.val) { ++g_ops; o.checksrc(); id = new_id(); if (o.id < VF_NID) g_st[o.id] = 2; }
  Y &operator=(const Y &o) noexcept {
    ++g_ops; check(); o.checksrc();
    val = o.val; if (id < VF_NID) g_st[id] = 1;
    return *this;
  }
  Y &operator=(Y &&o) noexcept {
    ++g_ops; check(); o.checksrc();
    if (this == &o) bad(BAD_SELF_MOVE);
    else { val = o.val; if (id < VF_NID) g_st[id] = 1; if (o.id < VF_NID) g_st[o.id] = 2; }
    return *this;
  }
  ~Y() { ++g_ops; check(); if (at_home() && id < VF_NID && g_st[id] != 0) { g_st[id] = 0; --g_alive; } }
};
static inline bool operator==(const Y &a, const Y &b) { a.checksrc(); b.checksrc(); return a.val == b.val; }
static inline bool operator<(const Y &a, const Y &b) { a.checksrc(); b.checksrc(); return a.val < b.val; }
static inline bool operator==(const R &a, const R &b) { a.checksrc(); b.checksrc(); return a.val == b.val; }
static inline bool operator<(const R &a, const R &b) { a.checksrc(); b.checksrc(); return a.val < b.val; }
static inline bool operator==(const X &a, const X &b) { a.checksrc(); b.checksrc(); return a.val == b.val; }
static inline bool operator<(const X &a, const X &b) { a.checksrc(); b.checksrc(); return a.val < b.val; }
static inline bool operator==(const T3 &a, const T3 &b) { return a.a == b.a; }
static inline bool operator<(const T3 &a, const T3 &b) { return a.a < b.a; }

// Uniform access to the element kinds
template <class E> struct Elem;
template <> struct Elem<B> {
  typedef B Arg;
  static Arg arg(uint8_t v) { return v; }
  static const bool relocatable = true, ledger = false;
  static B make(uint8_t v) { return v; }
  static void construct(void *p, uint8_t v) { *static_cast<B *>(p) = v; }
  static uint8_t val(const B &e) { return e; }
  static bool sound(const B &) { return true; }
  static uint8_t id(const B &) { return 0; }
};
template <> struct Elem<W> {
  typedef W Arg;
  static Arg arg(uint8_t v) { return make(v); }
  static const bool relocatable = true, ledger = false;
  static W make(uint8_t v) { return 0xA5A50000u ^ (static_cast<W>(v) << 8) ^ v; }
  static void construct(void *p, uint8_t v) { *static_cast<W *>(p) = make(v); }
  static uint8_t val(const W &e) { return static_cast<uint8_t>(e); }
  static bool sound(const W &e) { return e == make(static_cast<uint8_t>(e)); }
  static uint8_t id(const W &) { return 0; }
};
template <> struct Elem<T3> {
  typedef T3 Arg;
  static Arg arg(uint8_t v) { return make(v); }
  static const bool relocatable = true, ledger = false;
  static T3 make(uint8_t v) { T3 t; t.a = v; t.b = static_cast<uint8_t>(v ^ 0x5A); t.c = static_cast<uint8_t>(v + 1); return t; }
  static void construct(void *p, uint8_t v) { *static_cast<T3 *>(p) = make(v); }
  static uint8_t val(const T3 &e) { return e.a; }
  static bool sound(const T3 &e) { return e.b == static_cast<uint8_t>(e.a ^ 0x5A) && e.c == static_cast<uint8_t>(e.a + 1); }
  static uint8_t id(const T3 &) { return 0; }
};
template <> struct Elem<R> {
  typedef uint8_t Arg;
  static Arg arg(uint8_t v) { return v; }
  static const bool relocatable = true, ledger = true;
  static R make(uint8_t v) { return R(v); }
  static void construct(void *p, uint8_t v) { ::new (p) R(v); }
  static uint8_t val(const R &e) { return e.val; }
  static bool sound(const R &e) { return e.id < VF_NID && g_st[e.id] == 1; }
  static uint8_t id(const R &e) { return e.id; }
};
template <> struct Elem<Y> {
  typedef uint8_t Arg;
  static Arg arg(uint8_t v) { return v; }
  static const bool relocatable = false, ledger = true;
  static Y make(uint8_t v) { return Y(v); }
  static void construct(void *p, uint8_t v) { ::new (p) Y(v); }
  static uint8_t val(const Y &e) { return e.val; }
  static bool sound(const Y &e) { return e.at_home() && e.id < VF_NID && g_st[e.id] == 1; }
  static uint8_t id(const Y &e) { return e.id; }
};
template <> struct Elem<X> {
  typedef uint8_t Arg;
  static Arg arg(uint8_t v) { return v; }
  static const bool relocatable = false, ledger = true;
  static X make(uint8_t v) { return X(v); }
  static void construct(void *p, uint8_t v) { ::new (p) X(v); }
  static uint8_t val(const X &e) { return e.val; }
  static bool sound(const X &e) { return e.at_home() && e.id < VF_NID && g_st[e.id] == 1; }
  static uint8_t id(const X &e) { return e.id; }
};

// ------------------------------------------------------------------------------------------------ allocator ledger (C06)
enum {
  ABAD_FREE_UNKNOWN = 1,   // deallocate of a pointer that is not a live block (double free, foreign pointer)
  ABAD_FREE_SIZE = 2,      // deallocate with a count different from the one obtained / last reallocated
  ABAD_REALLOC_OLD = 3,    // reallocate with a wrong old capacity
  ABAD_REALLOC_LIVE = 4,   // reallocate with nConstructed > old capacity
  ABAD_REALLOC_NONTR = 5,  // allocator's reallocate used for a type that is not trivially relocatable
  ABAD_REALLOC_UNKNOWN = 6,
  ABAD_LEDGER_FULL = 7
};
#ifndef VF_NBLK
#define VF_NBLK 6
#endif
static uint8_t *g_blk_p[VF_NBLK];
static uint32_t g_blk_n[VF_NBLK];  // bytes
static uint8_t g_abad;
static uint8_t g_alloc_calls;    // allocate + reallocate calls (requests for memory)
static uint8_t g_dealloc_calls;
static uint32_t g_released_bytes;   // bytes of blocks given up (deallocate / old block of reallocate): bound on relocation work (C18)

static inline void abad(uint8_t c) {
  if (g_abad == 0) g_abad = c;
}
static inline uint8_t blocks_live() {
  uint8_t n = 0;
  for (unsigned i = 0; i < VF_NBLK; ++i) n += g_blk_p[i] != nullptr;
  return n;
}
static inline int blk_find(const void *p) {
  for (unsigned i = 0; i < VF_NBLK; ++i)
    if (g_blk_p[i] != nullptr && g_blk_p[i] == static_cast<const uint8_t *>(p)) return static_cast<int>(i);
  return -1;
}
static inline void *ledger_alloc(size_t bytes) {
#ifdef VF_OBS_ALLOC
  vf_obs(0xA1000000u | static_cast<uint32_t>(bytes));
#endif
  ++g_alloc_calls;
  fault_point();
  uint8_t *p = vf_malloc(bytes);
  for (unsigned i = 0; i < VF_NBLK; ++i)
    if (g_blk_p[i] == nullptr) {
      g_blk_p[i] = p;
      g_blk_n[i] = static_cast<uint32_t>(bytes);
      return p;
    }
  abad(ABAD_LEDGER_FULL);
  return p;
}
static inline void ledger_free(void *p, size_t bytes) {
  if (p == nullptr && bytes == 0) return;   // deallocate(nullptr, 0): nothing is handed back (harmless, as free(NULL))
#ifdef VF_OBS_ALLOC
  vf_obs(0xA2000000u | static_cast<uint32_t>(bytes));
#endif
  ++g_dealloc_calls;
  int k = blk_find(p);
  if (k < 0) {
    abad(ABAD_FREE_UNKNOWN);
    return;
  }
  if (g_blk_n[k] != bytes) abad(ABAD_FREE_SIZE);
  g_released_bytes += g_blk_n[k];
  g_blk_p[k] = nullptr;
  vf_free_(static_cast<uint8_t *>(p));
}
static inline void *ledger_realloc(void *p, size_t oldBytes, size_t newBytes) {
  if (p == nullptr) {
    if (oldBytes != 0) abad(ABAD_REALLOC_OLD);
    return ledger_alloc(newBytes);  // amc::vector grows from empty through reallocate(nullptr, 0, n)
  }
#ifdef VF_OBS_ALLOC
  vf_obs(0xA3000000u | static_cast<uint32_t>(oldBytes << 12) | static_cast<uint32_t>(newBytes));
#endif
  ++g_alloc_calls;
  fault_point();
  int k = blk_find(p);
  if (k < 0) {
    abad(ABAD_REALLOC_UNKNOWN);
    return vf_malloc(newBytes);
  }
  if (g_blk_n[k] != oldBytes) abad(ABAD_REALLOC_OLD);
  g_released_bytes += g_blk_n[k];
  uint8_t *q = vf_realloc_(static_cast<uint8_t *>(p), newBytes);
  g_blk_p[k] = q;
  g_blk_n[k] = static_cast<uint32_t>(newBytes);
  return q;
}

// "basic allocator" in the sense of amc/allocator.hpp: LA<T> has exactly the shape of amc::allocator<T>
struct LedgerBasic {
  void *allocate(size_t n) { return ledger_alloc(n); }
  void *reallocate(void *p, size_t oldSz, size_t newSz) { return ledger_realloc(p, oldSz, newSz); }
  void deallocate(void *p, size_t n) { ledger_free(p, n); }
};

// SA<T>: standard-like allocator WITHOUT reallocate
template <class T> struct SA {
  typedef T value_type;
  typedef size_t size_type;
  typedef ptrdiff_t difference_type;
  typedef T *pointer;
  typedef const T *const_pointer;
  typedef T &reference;
  typedef const T &const_reference;
  template <class U> struct rebind { typedef SA<U> other; };
  SA() {}
  template <class U> SA(const SA<U> &) {}
  T *allocate(size_t n) { return static_cast<T *>(ledger_alloc(n * sizeof(T))); }
  void deallocate(T *p, size_t n) { ledger_free(p, n * sizeof(T)); }
  template <class U> bool operator==(const SA<U> &) const { return true; }
  template <class U> bool operator!=(const SA<U> &) const { return false; }
};

// RA<T>: allocator WITH its own 4-argument reallocate; flags any use for a type that is not relocatable.
template <class T> struct RA {
  typedef T value_type;
  typedef size_t size_type;
  typedef ptrdiff_t difference_type;
  typedef T *pointer;
  typedef const T *const_pointer;
  typedef T &reference;
  typedef const T &const_reference;
  template <class U> struct rebind { typedef RA<U> other; };
  RA() {}
  template <class U> RA(const RA<U> &) {}
  T *allocate(size_t n) { return static_cast<T *>(ledger_alloc(n * sizeof(T))); }
  void deallocate(T *p, size_t n) { ledger_free(p, n * sizeof(T)); }
  T *reallocate(T *p, size_t oldCapa, size_t newCapa, size_t nConstructed) {
    if (!Elem<T>::relocatable) abad(ABAD_REALLOC_NONTR);
    if (nConstructed > oldCapa) abad(ABAD_REALLOC_LIVE);
    return static_cast<T *>(ledger_realloc(p, oldCapa * sizeof(T), newCapa * sizeof(T)));
  }
  template <class U> bool operator==(const RA<U> &) const { return true; }
  template <class U> bool operator!=(const RA<U> &) const { return false; }
};

// ------------------------------------------------------------------------------------------------ sequence model (oracle for vectors)
#ifndef VF_MAXM
#define VF_MAXM 12
#endif
struct Seq {
  uint8_t a[VF_MAXM];
  uint8_t n;
  void clear() { n = 0; }
  void push_back(uint8_t x) { a[n++] = x; }
  void pop_back() { --n; }
  void insert(uint8_t pos, uint8_t cnt, uint8_t x) {  // insert cnt copies of x before pos
    for (unsigned i = n; i > pos; --i) a[i - 1 + cnt] = a[i - 1];
    for (unsigned i = 0; i < cnt; ++i) a[pos + i] = x;
    n = static_cast<uint8_t>(n + cnt);
  }
  void insert_range(uint8_t pos, const uint8_t *src, uint8_t cnt) {
    for (unsigned i = n; i > pos; --i) a[i - 1 + cnt] = a[i - 1];
    for (unsigned i = 0; i < cnt; ++i) a[pos + i] = src[i];
    n = static_cast<uint8_t>(n + cnt);
  }
  void erase(uint8_t first, uint8_t last) {
    uint8_t cnt = static_cast<uint8_t>(last - first);
    for (unsigned i = last; i < n; ++i) a[i - cnt] = a[i];
    n = static_cast<uint8_t>(n - cnt);
  }
  void resize(uint8_t cnt, uint8_t x) {
    for (unsigned i = n; i < cnt; ++i) a[i] = x;
    n = cnt;
  }
  void assign(uint8_t cnt, uint8_t x) {
    for (unsigned i = 0; i < cnt; ++i) a[i] = x;
    n = cnt;
  }
  void assign_range(const uint8_t *src, uint8_t cnt) {
    for (unsigned i = 0; i < cnt; ++i) a[i] = src[i];
    n = cnt;
  }
  bool equals(const Seq &o) const {
    if (n != o.n) return false;
    for (unsigned i = 0; i < n; ++i)
      if (a[i] != o.a[i]) return false;
    return true;
  }
  bool less(const Seq &o) const {  // lexicographic
    for (unsigned i = 0; i < n && i < o.n; ++i) {
      if (a[i] < o.a[i]) return true;
      if (o.a[i] < a[i]) return false;
    }
    return n < o.n;
  }
};

// ------------------------------------------------------------------------------------------------ range sources
// Source array of E built from symbolic bytes, viewed through iterators of every category std::vector accepts.
static uint8_t g_itbad;   // 1 = a single-pass input iterator was read after it had been consumed / past the end
template <class E> struct FwdIt {   // forward iterator (no random access: std::distance walks it)
  typedef std::forward_iterator_tag iterator_category;
  typedef E value_type; typedef ptrdiff_t difference_type; typedef const E *pointer; typedef const E &reference;
  const E *p;
  FwdIt() : p(nullptr) {}
  explicit FwdIt(const E *q) : p(q) {}
  reference operator*() const { return *p; }
  pointer operator->() const { return p; }
  FwdIt &operator++() { ++p; return *this; }
  FwdIt operator++(int) { FwdIt t(*this); ++p; return t; }
  bool operator==(const FwdIt &o) const { return p == o.p; }
  bool operator!=(const FwdIt &o) const { return p != o.p; }
};
template <class E> struct BidIt : FwdIt<E> {
  typedef std::bidirectional_iterator_tag iterator_category;
  BidIt() {}
  explicit BidIt(const E *q) : FwdIt<E>(q) {}
  BidIt &operator++() { ++this->p; return *this; }
  BidIt operator++(int) { BidIt t(*this); ++this->p; return t; }
  BidIt &operator--() { --this->p; return *this; }
  BidIt operator--(int) { BidIt t(*this); --this->p; return t; }
};
// single-pass input iterator: all copies share one cursor (like std::istream_iterator)
template <class E> struct InSrc { const E *a; uint8_t n; uint8_t pos; };
template <class E> struct InIt {
  typedef std::input_iterator_tag iterator_category;
  typedef E value_type; typedef ptrdiff_t difference_type; typedef const E *pointer; typedef const E &reference;
  InSrc<E> *s;
  bool sentinel;   // the 'last' iterator
  InIt() : s(nullptr), sentinel(true) {}
  InIt(InSrc<E> *src, bool end) : s(src), sentinel(end) {}
  // the source array always holds at least one constructed element, so a[0] is a valid object to hand out on misuse
  reference operator*() const {
    if (sentinel || s->pos >= s->n) { g_itbad = 1; return s->a[0]; }
    return s->a[s->pos];
  }
  InIt &operator++() { if (sentinel || s->pos >= s->n) g_itbad = 1; else ++s->pos; return *this; }
  InIt operator++(int) { InIt t(*this); ++*this; return t; }
  bool at_end() const { return sentinel || s->pos >= s->n; }
  bool operator==(const InIt &o) const { return at_end() == o.at_end(); }
  bool operator!=(const InIt &o) const { return !(*this == o); }
};

// ------------------------------------------------------------------------------------------------ private member access
// Explicit-instantiation idiom (standard conforming): no change to /repo, no '#define private public'.
template <class Tag, typename Tag::type M> struct Rob {
  friend typename Tag::type get(Tag) { return M; }
};
#define VF_ROB(tag, cls, mtype, member)     \
  struct tag {                              \
    typedef mtype cls::*type;               \
    friend type get(tag);                   \
  };                                        \
  template struct ::vf::Rob<tag, &cls::member>

}  // namespace vf
