// C13: swap2 between two vectors of (possibly) different flavour / inline capacity / size_type / allocator.
// -D: VF_E; A_KIND A_N A_S A_AK A_CLS ; B_KIND B_N B_S B_AK B_CLS   (KIND 0 vector, 1 SmallVector, 2 FixedCapacityVector)
#ifndef VF_E
#define VF_E B
#endif
#include "vec_common.hpp"
typedef vf::VF_E E;
#define MK_ALLOC(NAME, AK) typedef std::conditional<AK == 0, amc::BasicAllocatorWrapper<E, vf::LedgerBasic>, std::conditional<AK == 1, vf::SA<E>, vf::RA<E> >::type>::type NAME
MK_ALLOC(AllocA, A_AK);
MK_ALLOC(AllocB, B_AK);
#if A_KIND == 2
typedef amc::FixedCapacityVector<E, A_N> VA; typedef VA::size_type SA_; VF_ACCESS_FIXED(AccA, E, SA_)
#elif A_KIND == 1
typedef A_S SA_; typedef amc::SmallVector<E, A_N, AllocA, SA_> VA; VF_ACCESS_SMALL(AccA, E, AllocA, SA_)
#else
typedef A_S SA_; typedef amc::vector<E, AllocA, SA_> VA; VF_ACCESS_STD(AccA, E, AllocA, SA_)
#endif
#if B_KIND == 2
typedef amc::FixedCapacityVector<E, B_N> VB; typedef VB::size_type SB_; VF_ACCESS_FIXED(AccB, E, SB_)
#elif B_KIND == 1
typedef B_S SB_; typedef amc::SmallVector<E, B_N, AllocB, SB_> VB; VF_ACCESS_SMALL(AccB, E, AllocB, SB_)
#else
typedef B_S SB_; typedef amc::vector<E, AllocB, SB_> VB; VF_ACCESS_STD(AccB, E, AllocB, SB_)
#endif
#ifndef VF_CMAX
#define VF_CMAX 4
#endif
struct CfgA { typedef ::E E; typedef AllocA A; typedef SA_ S; typedef VA V; typedef vf::AccA Acc; static const int kind = A_KIND; static const unsigned N = A_N; static const unsigned CMAX = A_KIND == 2 ? A_N : VF_CMAX; };
struct CfgB { typedef ::E E; typedef AllocB A; typedef SB_ S; typedef VB V; typedef vf::AccB Acc; static const int kind = B_KIND; static const unsigned N = B_N; static const unsigned CMAX = B_KIND == 2 ? B_N : VF_CMAX; };
using vf::nd8; using vf::Elem; using vf::Seq;

template <class C> static void same_as(vf::Ctx<C> &c, const Seq &exp) {
  vf_assert(c.v().size() == exp.n, 13004);
  for (unsigned i = 0; i < VF_MAXM; ++i) { if (i >= exp.n || i >= c.v().size()) break; vf_assert(Elem<E>::val(c.v().data()[i]) == exp.a[i] && Elem<E>::sound(c.v().data()[i]), 13004); }
}
template <class C> static void unchanged(vf::Ctx<C> &c) {
  vf_assert(c.v().size() == c.m0.n, 13002);
  for (unsigned i = 0; i < VF_MAXM; ++i) { if (i >= c.m0.n || i >= c.v().size()) break; vf_assert(Elem<E>::val(c.v().data()[i]) == c.m0.a[i] && Elem<E>::sound(c.v().data()[i]), 13002); }
}
// "both vectors remain fully usable": one more element goes in (or out when full and fixed) and is observed
template <class C> static void usable(vf::Ctx<C> &c, Seq m) {
  typename C::V &w = c.v();
  if (C::kind == vf::KIND_FIXED && m.n == C::N) { w.pop_back(); m.pop_back(); }
  else { w.push_back(Elem<E>::make(0x5C)); m.push_back(0x5C); }
  vf_assert(w.size() == m.n, 13006);
  for (unsigned i = 0; i < VF_MAXM; ++i) { if (i >= m.n || i >= w.size()) break; vf_assert(Elem<E>::val(w.data()[i]) == m.a[i] && Elem<E>::sound(w.data()[i]), 13006); }
  vf_assert(w.size() <= w.capacity(), 13006);
}

extern "C" void h_swap2(void) {
  vf::Ctx<CfgA> a; vf::Ctx<CfgB> b;
  a.setup(A_CLS); b.setup(B_CLS); a.snap(); b.snap();
  bool impossible = (A_KIND == 2 && b.m.n > A_N) || (B_KIND == 2 && a.m.n > B_N);
  int exc = 0;
  try { a.v().swap2(b.v()); }
  catch (const std::overflow_error &) { exc = 2; }
  catch (const std::out_of_range &) { exc = 3; }
  if (impossible) {
    vf_assert(exc != 0, 13001);                 // throws ...
    unchanged(a); unchanged(b);                 // ... and both operands keep their original contents
    vf_reach(2);
    usable(a, a.m0); usable(b, b.m0);
  } else {
    vf_assert(exc == 0, 13003);
    same_as(a, b.m0); same_as(b, a.m0);         // element sequences exchanged exactly
    usable(a, b.m0); usable(b, a.m0);
  }
  vf_assert(vf::g_bad == 0 && vf::g_abad == 0, 13007);
  if (Elem<E>::ledger) vf_assert(vf::alive_count() == a.v().size() + b.v().size(), 13007);   // none lost, duplicated or leaked
  a.pv->~VA(); b.pv->~VB();
  vf_assert(vf::g_bad == 0 && vf::g_abad == 0, 13007);
  if (Elem<E>::ledger) vf_assert(vf::alive_count() == 0, 13007);
  vf_assert(vf::blocks_live() == 0, 13007);
  vf_reach(1);
}

// the exchange is impossible because a size_type is too small for the other vector's size / capacity: must throw, both unchanged.
// Operands: amc::vector<B, LA, uint8_t> (heap, small) and amc::vector<B, LA, uint32_t> with capacity 250..262 built directly.
#ifdef SW_LIMIT
typedef amc::BasicAllocatorWrapper<vf::B, vf::LedgerBasic> AL;
typedef amc::vector<vf::B, AL, uint8_t> V8;
typedef amc::vector<vf::B, AL, uint32_t> V32;
VF_ACCESS_STD(AccL8, vf::B, AL, uint8_t)
VF_ACCESS_STD(AccL32, vf::B, AL, uint32_t)
extern "C" void h_swap2_limit(void) {
  {
    V8 a; V32 b;
    uint8_t c8 = nd8(6); vf_assume(c8 >= 1); uint8_t s8 = nd8(c8 < 3 ? c8 : 3);
    uint16_t c32 = static_cast<uint16_t>(250 + nd8(12)); uint16_t s32 = static_cast<uint16_t>(c32 - nd8(4));
    vf::B *p8 = AL().allocate(c8); vf::B *p32 = AL().allocate(c32);
    vf_havoc(p32, c32);
    for (unsigned i = 0; i < 3; ++i) { if (i >= s8) break; p8[i] = nd8(); }
    uint8_t a0 = p8[0], b0 = p32[0], bl = p32[s32 - 1];
    vf::AccL8::capa(a) = c8; vf::AccL8::size(a) = s8; vf::AccL8::setDyn(a, p8);
    vf::AccL32::capa(b) = c32; vf::AccL32::size(b) = s32; vf::AccL32::setDyn(b, p32);
    uint8_t dir = nd8(1); int exc = 0;
    try { if (dir) a.swap2(b); else b.swap2(a); } catch (const std::overflow_error &) { exc = 2; } catch (const std::out_of_range &) { exc = 3; }
    bool impossible = c32 > 255;      // buffers would be exchanged: the 32-bit capacity does not fit the 8-bit size_type
    if (impossible) {
      vf_assert(exc == 2, 13001);
      vf_assert(a.size() == s8 && a.capacity() == c8 && a.data() == p8 && b.size() == s32 && b.capacity() == c32 && b.data() == p32, 13002);
      vf_assert((s8 == 0 || a[0] == a0) && b[0] == b0 && b[s32 - 1] == bl, 13002);
      vf_reach(2);
    } else {
      vf_assert(exc == 0, 13003);
      vf_assert(a.size() == s32 && b.size() == s8 && a.capacity() == c32 && b.capacity() == c8, 13004);
      vf_assert(a[0] == b0 && a[static_cast<uint8_t>(s32 - 1)] == bl && (s8 == 0 || b[0] == a0), 13004);
      vf_reach(3);
    }
  }
  vf_assert(vf::g_abad == 0 && vf::blocks_live() == 0, 13007);
  vf_reach(1);
}
#endif
