// C19 at discriminating sizes: comparator-call counts of FlatSet lookups, position searches and hinted insertion on a set of
// FB_N elements (FB_N is CONCRETE per query: 8 ... 32; content and key symbolic).  A linear scan needs up to FB_N (+1) calls,
// the property allows 2*ceil(log2(FB_N+1))+4: from FB_N >= 16 the bound separates binary from linear search.
// Result correctness is C03's job (at n <= 5); only call counts (and cheap sanity facts) are asserted here.
#ifndef FB_N
#define FB_N 32
#endif
#ifndef FB_VEC
#define FB_VEC 0
#endif
#define VF_MAXM 4
#include "vec_common.hpp"
#include <amc/flatset.hpp>
typedef uint8_t K;
typedef amc::BasicAllocatorWrapper<K, vf::LedgerBasic> A;
static unsigned g_cmp;
struct Cmp { bool operator()(K a, K b) const { ++g_cmp; return a < b; } };
#if FB_VEC == 0
typedef uint32_t S; typedef amc::vector<K, A, S> Vec; VF_ACCESS_STD(Acc, K, A, S)
#else
typedef uint8_t S; typedef amc::SmallVector<K, 4, A, S> Vec; VF_ACCESS_SMALL(Acc, K, A, S)
#endif
typedef amc::FlatSet<K, Cmp, A, Vec> FS;
namespace vf { VF_ROB(FB_TVec, FS, Vec, _sortedVector); }
using vf::nd8;
#define OP(name) extern "C" void h_##name(void)
static unsigned ceil_log2(unsigned x) { unsigned r = 0; while ((1u << r) < x) ++r; return r; }
static const unsigned BOUND = 2 * 6 + 4;   // placeholder, recomputed below

struct Big {
  alignas(16) uint8_t buf[sizeof(FS)];
  FS *ps; K *p;
  FS &s() { return *ps; }
  void setup(unsigned spare) {
    ps = ::new (static_cast<void *>(buf)) FS();
    Vec &v = ps->*get(vf::FB_TVec());
    p = A().allocate(FB_N + spare);
    for (unsigned i = 0; i < FB_N; ++i) p[i] = nd8();       // arbitrary content (drawn one by one so that a counterexample replays natively) ...
    for (unsigned i = 1; i < FB_N; ++i) vf_assume(p[i - 1] < p[i]);   // ... assumed strictly increasing
    vf::Acc::capa(v) = static_cast<S>(FB_N + spare); vf::Acc::size(v) = static_cast<S>(FB_N); vf::Acc::setDyn(v, p);
    g_cmp = 0;
  }
  void finish() { ps->~FS(); vf_assert(vf::g_abad == 0 && vf::blocks_live() == 0, 6004); }
};
OP(big_lookup) {
  Big b; b.setup(0);
  const FS &f = b.s();
  K k = nd8();
  const unsigned bound = 2 * ceil_log2(FB_N + 1) + 4;
  g_cmp = 0; FS::const_iterator it = f.find(k); vf_assert(g_cmp <= bound, 19001);
  g_cmp = 0; bool c = f.contains(k); vf_assert(g_cmp <= bound, 19001);
  g_cmp = 0; FS::size_type n = f.count(k); vf_assert(g_cmp <= bound, 19001);
  g_cmp = 0; FS::const_iterator lb = f.lower_bound(k); vf_assert(g_cmp <= bound, 19001);
  g_cmp = 0; FS::const_iterator ub = f.upper_bound(k); vf_assert(g_cmp <= bound, 19001);
  g_cmp = 0; std::pair<FS::const_iterator, FS::const_iterator> er = f.equal_range(k); vf_assert(g_cmp <= bound, 19001);
  // cheap consistency between the answers
  vf_assert(c == (it != f.end()) && n == (c ? 1u : 0u) && er.first == lb && er.second == ub && (ub - lb) == (c ? 1 : 0), 19004);
  vf_reach(1);
  b.finish();
}
OP(big_erase_key) {
  Big b; b.setup(0);
  K k = nd8();
  const unsigned bound = 2 * ceil_log2(FB_N + 1) + 4;
  g_cmp = 0; FS::size_type r = b.s().erase(k); vf_assert(g_cmp <= bound, 19001);
  vf_assert(b.s().size() == FB_N - r, 19004);
  vf_reach(1);
  b.finish();
}
OP(big_insert) {
  Big b; b.setup(1);
  K k = nd8(); bool emp = nd8(1);
  const unsigned bound = 2 * ceil_log2(FB_N + 1) + 4;
  g_cmp = 0;
  std::pair<FS::iterator, bool> r = emp ? b.s().emplace(k) : b.s().insert(k);
  vf_assert(g_cmp <= bound, 19001);                          // position search of insert / emplace
  vf_assert(b.s().size() == FB_N + (r.second ? 1u : 0u) && *r.first == k, 19004);
  vf_reach(1);
  b.finish();
}
// a correct hint makes the insertion search-free: a constant number of comparator calls, independent of n
OP(big_hint) {
  Big b; b.setup(1);
  K k = nd8(); uint8_t h = nd8(FB_N);
  // correct hint: everything before h is smaller than k, everything from h on is not smaller
  if (h > 0) vf_assume(b.p[h - 1] < k);
  if (h < FB_N) vf_assume(!(b.p[h] < k));
  uint8_t form = nd8(1);
  g_cmp = 0;
  FS::iterator r = form ? b.s().insert(b.s().begin() + h, k) : b.s().emplace_hint(b.s().begin() + h, k);
  vf_assert(g_cmp <= 4, 19002);
  vf_assert(*r == k && r == b.s().begin() + h, 19004);
  vf_reach(1);
  b.finish();
}
