// C08: capacity-limit errors of the dynamic flavours (size_type maximum).  States with size/capacity next to the maximum of an
// 8-bit size_type are built directly (no 250 push_backs); the partition assumes "the model size exceeds the maximum", so every
// copy loop behind the capacity check is infeasible and is discharged by its unwinding assertion.
// -D: VF_KIND (0 vector, 1 SmallVector<B,4>), VF_S (uint8_t | int8_t)
#ifndef VF_KIND
#define VF_KIND 1
#endif
#ifndef VF_S
#define VF_S uint8_t
#endif
#define VF_N 4
#include "vec_common.hpp"
typedef vf::B E;
typedef amc::BasicAllocatorWrapper<E, vf::LedgerBasic> A;
typedef VF_S S;
#if VF_KIND == 1
typedef amc::SmallVector<E, VF_N, A, S> V;
VF_ACCESS_SMALL(Acc, E, A, S)
#else
typedef amc::vector<E, A, S> V;
VF_ACCESS_STD(Acc, E, A, S)
#endif
using vf::nd8;
static const unsigned SMAX = static_cast<unsigned>(std::numeric_limits<S>::max());   // 255 or 127

struct Big {
  alignas(16) uint8_t buf[sizeof(V)];
  V *pv; uint8_t s, c; E *p; uint8_t probe, probeVal; uint8_t alloc0, dealloc0; int exc;
  V &v() { return *pv; }
  void setup() {
    pv = ::new (static_cast<void *>(buf)) V();
    c = nd8(); vf_assume(c >= SMAX - 5 && c <= SMAX);
    s = nd8(); vf_assume(s >= SMAX - 5 && s <= c);
    p = A().allocate(c);
    vf_havoc(p, c);                         // arbitrary contents
    vf::Acc::capa(*pv) = static_cast<S>(c); vf::Acc::size(*pv) = static_cast<S>(s); vf::Acc::setDyn(*pv, p);
    probe = nd8(); vf_assume(probe < s); probeVal = p[probe];
    alloc0 = vf::g_alloc_calls; dealloc0 = vf::g_dealloc_calls; exc = 0;
  }
  void unchanged() {
    V &w = *pv;
    vf_assert(exc == vf::EXC_OVERFLOW, 8001);                                      // throws std::overflow_error
    vf_assert(static_cast<unsigned>(w.size()) == s && static_cast<unsigned>(w.capacity()) == c && w.data() == p, 8002);
    vf_assert(w.data()[probe] == probeVal, 8002);                                  // contents as before (symbolic probe index)
    vf_assert(vf::g_alloc_calls == alloc0 && vf::g_dealloc_calls == dealloc0 && vf::g_abad == 0, 8005);   // nothing requested, nothing lost
    // remains fully usable
    w.pop_back();
    vf_assert(static_cast<unsigned>(w.size()) == s - 1u, 8003);
    w.push_back(static_cast<E>(9));
    vf_assert(static_cast<unsigned>(w.size()) == s && w.back() == 9, 8003);
  }
  void finish() { pv->~V(); vf_assert(vf::g_abad == 0 && vf::blocks_live() == 0, 8005); }
};
#define OP(name) extern "C" void h_##name(void)
#define TRYX(b, stmt) do { try { stmt; } catch (const std::overflow_error &) { (b).exc = vf::EXC_OVERFLOW; } catch (const std::out_of_range &) { (b).exc = vf::EXC_RANGE; } } while (0)

OP(lim_push_back) {
  Big b; b.setup(); vf_assume(b.s == SMAX);
  E x = nd8(); uint8_t form = nd8(2);
  if (form == 0) TRYX(b, b.v().push_back(x)); else if (form == 1) TRYX(b, b.v().push_back(E(x))); else TRYX(b, b.v().emplace_back(x));
  b.unchanged(); vf_reach(1); b.finish();
}
OP(lim_insert_one) {
  Big b; b.setup(); vf_assume(b.s == SMAX);
  E x = nd8(); uint8_t pos = nd8(); vf_assume(pos <= b.s); uint8_t form = nd8(2);
  if (form == 0) TRYX(b, b.v().insert(b.v().begin() + pos, x)); else if (form == 1) TRYX(b, b.v().insert(b.v().begin() + pos, E(x))); else TRYX(b, b.v().emplace(b.v().begin() + pos, x));
  b.unchanged(); vf_reach(1); b.finish();
}
OP(lim_insert_n) {
  Big b; b.setup();
  E x = nd8(); uint8_t pos = nd8(); vf_assume(pos <= b.s); uint8_t cnt = nd8(); vf_assume(static_cast<unsigned>(b.s) + cnt > SMAX && cnt <= SMAX);
  TRYX(b, b.v().insert(b.v().begin() + pos, static_cast<S>(cnt), x));
  b.unchanged(); vf_reach(1); b.finish();
}
OP(lim_insert_range) {
  Big b; b.setup();
  static E src[8]; uint8_t pos = nd8(); vf_assume(pos <= b.s); uint8_t cnt = nd8(8); vf_assume(static_cast<unsigned>(b.s) + cnt > SMAX);
  uint8_t form = nd8(1);
  if (form) TRYX(b, b.v().insert(b.v().begin() + pos, static_cast<const E *>(src), static_cast<const E *>(src + cnt)));
  else TRYX(b, b.v().append(static_cast<const E *>(src), static_cast<const E *>(src + cnt)));
  b.unchanged(); vf_reach(1); b.finish();
}
OP(lim_append_n) {
  Big b; b.setup();
  E x = nd8(); uint8_t cnt = nd8(); vf_assume(static_cast<unsigned>(b.s) + cnt > SMAX && cnt <= SMAX); uint8_t form = nd8(1);
  if (form) TRYX(b, b.v().append(static_cast<S>(cnt), x)); else TRYX(b, b.v().append(static_cast<S>(cnt)));
  b.unchanged(); vf_reach(1); b.finish();
}
// within the limit nothing throws although the capacity has to be clamped to the maximum (no wrap-around of the size computation)
OP(lim_grow_to_max) {
  Big b; b.setup(); vf_assume(b.c < SMAX && b.s == b.c);
  E x = nd8();
  TRYX(b, b.v().push_back(x));
  vf_assert(b.exc == 0, 8007);
  vf_assert(static_cast<unsigned>(b.v().size()) == b.s + 1u && static_cast<unsigned>(b.v().capacity()) == SMAX, 8007);
  vf_assert(b.v().back() == x && b.v().data()[b.probe] == b.probeVal, 8007);
  vf_reach(1); b.finish();
}
