// C15: amc:: memory algorithms against the specification of the C++17/20 standard ones, in every supported language standard
// (different implementations are selected: emulation before C++17/20, 'using std::...' after).
// -D: MA_E (B | T3 | R | X), MA_IT (0 pointer, 1 forward iterator, 2 bidirectional iterator, 3 move_iterator<pointer>), MA_MAX (max length), VF_FAULTS
#ifndef MA_E
#define MA_E X
#endif
#ifndef MA_IT
#define MA_IT 0
#endif
#ifndef MA_MAX
#define MA_MAX 4
#endif
#include "common.hpp"
#include <amc/memory.hpp>
typedef vf::MA_E E;
using vf::nd8; using vf::Elem;
#define OP(name) extern "C" void h_##name(void)

#if MA_IT == 0
typedef const E *SrcIt;  static SrcIt mk(E *p) { return p; }
#elif MA_IT == 1
typedef vf::FwdIt<E> SrcIt; static SrcIt mk(E *p) { return SrcIt(p); }
#elif MA_IT == 2
typedef vf::BidIt<E> SrcIt; static SrcIt mk(E *p) { return SrcIt(p); }
#else
typedef std::move_iterator<E *> SrcIt; static SrcIt mk(E *p) { return SrcIt(p); }
#endif
// mutable-range iterators for the algorithms that write through / relocate from the source
#if MA_IT == 1
struct MFwd {   // forward iterator over mutable elements
  typedef std::forward_iterator_tag iterator_category; typedef E value_type; typedef ptrdiff_t difference_type; typedef E *pointer; typedef E &reference;
  E *p; MFwd() : p(nullptr) {} explicit MFwd(E *q) : p(q) {}
  reference operator*() const { return *p; } pointer operator->() const { return p; }
  MFwd &operator++() { ++p; return *this; } MFwd operator++(int) { MFwd t(*this); ++p; return t; }
  bool operator==(const MFwd &o) const { return p == o.p; } bool operator!=(const MFwd &o) const { return p != o.p; }
};
typedef MFwd MutIt; static MutIt mm(E *p) { return MutIt(p); } static E *raw(MutIt i) { return i.p; }
#else
typedef E *MutIt; static MutIt mm(E *p) { return p; } static E *raw(MutIt i) { return i; }
#endif

struct Bufs {
  alignas(16) uint8_t s[(MA_MAX + 1) * sizeof(E)];
  alignas(16) uint8_t d[(MA_MAX + 1) * sizeof(E)];
  uint8_t vals[MA_MAX + 1]; uint8_t n; uint8_t alive0; int exc;
  E *src() { return reinterpret_cast<E *>(s); }
  E *dst() { return reinterpret_cast<E *>(d); }
  void build() {
    n = nd8(MA_MAX);
    for (unsigned i = 0; i < MA_MAX + 1; ++i) { if (i > n) break; vals[i] = nd8(); Elem<E>::construct(src() + i, vals[i]); }   // n elements + one sentinel that must never be touched
    vf_havoc(d, sizeof(d));
    alive0 = vf::alive_count(); exc = 0; vf::g_events = 0; vf::g_fault_at = 0;
  }
  // arm the fault injector: called right before the algorithm under test (never around the harness' own constructions)
  void arm() {
#ifdef VF_FAULTS
    vf::g_events = 0; vf::g_fault_at = nd8(VF_FAULTS);
#endif
  }
  void src_intact(unsigned id_unused) {
    (void)id_unused;
    for (unsigned i = 0; i < MA_MAX + 1; ++i) { if (i > n) break; vf_assert(Elem<E>::val(src()[i]) == vals[i] && Elem<E>::sound(src()[i]), 15003); }
  }
  void dst_is_copy(unsigned cnt) {
    for (unsigned i = 0; i < MA_MAX; ++i) { if (i >= cnt) break; vf_assert(Elem<E>::val(dst()[i]) == vals[i] && Elem<E>::sound(dst()[i]), 15002); }
  }
  void destroy_src(unsigned cnt) { for (unsigned i = 0; i < MA_MAX + 1; ++i) { if (i >= cnt) break; src()[i].~E(); } }
  void destroy_dst(unsigned cnt) { for (unsigned i = 0; i < MA_MAX; ++i) { if (i >= cnt) break; dst()[i].~E(); } }
  void end() {
    vf::g_fault_at = 0;
    vf_assert(vf::g_bad == 0, 15005);
    if (Elem<E>::ledger) vf_assert(vf::alive_count() == 0, 15006);
  }
};
#define TRYF(b, stmt) do { (b).arm(); try { stmt; } catch (const vf::Fault &) { (b).exc = 1; } vf::g_fault_at = 0; } while (0)
// after a throw: everything the algorithm created has been destroyed, nothing else was touched
#define ON_THROW_CLEAN(b) do { if (Elem<E>::ledger) vf_assert(vf::alive_count() == (b).alive0, 15004); (b).src_intact(0); vf_reach(2); } while (0)

OP(uninitialized_copy) {
  Bufs b; b.build();
  E *r = nullptr; bool byn = nd8(1);
  if (byn) TRYF(b, r = amc::uninitialized_copy_n(mk(b.src()), b.n, b.dst())); else TRYF(b, r = amc::uninitialized_copy(mk(b.src()), mk(b.src() + b.n), b.dst()));
  vf::g_fault_at = 0;
  if (b.exc) { ON_THROW_CLEAN(b); b.destroy_src(b.n + 1u); }
  else {
    vf_assert(r == b.dst() + b.n, 15001);
    b.dst_is_copy(b.n);
#if MA_IT != 3
    b.src_intact(0);
#endif
    b.destroy_dst(b.n); b.destroy_src(b.n + 1u);
  }
  vf_reach(1); b.end();
}
#if MA_IT != 3
OP(uninitialized_move) {
  Bufs b; b.build();
  bool byn = nd8(1);
  E *r = nullptr; MutIt rs = mm(nullptr);
  if (byn) { std::pair<MutIt, E *> pr = amc::uninitialized_move_n(mm(b.src()), b.n, b.dst()); r = pr.second; rs = pr.first; }
  else r = amc::uninitialized_move(mm(b.src()), mm(b.src() + b.n), b.dst());
  vf_assert(r == b.dst() + b.n, 15001);
  if (byn) vf_assert(raw(rs) == b.src() + b.n, 15001);          // both iterators advanced by n
  b.dst_is_copy(b.n);
  // sources are moved-from but still alive (destroyed by their owner); the sentinel is untouched
  vf_assert(Elem<E>::val(b.src()[b.n]) == b.vals[b.n] && Elem<E>::sound(b.src()[b.n]), 15003);
  if (Elem<E>::ledger) vf_assert(vf::alive_count() == b.alive0 + b.n, 15004);
  b.destroy_dst(b.n); b.destroy_src(b.n + 1u);
  vf_reach(1); b.end();
}
OP(uninitialized_relocate) {
  Bufs b; b.build();
  bool byn = nd8(1);
  E *r = nullptr; MutIt rs = mm(nullptr);
  if (byn) { std::pair<MutIt, E *> pr = amc::uninitialized_relocate_n(mm(b.src()), b.n, b.dst()); r = pr.second; rs = pr.first; }
  else r = amc::uninitialized_relocate(mm(b.src()), mm(b.src() + b.n), b.dst());
  vf_assert(r == b.dst() + b.n, 15001);
  if (byn) vf_assert(raw(rs) == b.src() + b.n, 15001);
  b.dst_is_copy(b.n);
  // relocate = move-construct then destroy the source: same number of live objects, sources dead
  if (Elem<E>::ledger) vf_assert(vf::alive_count() == b.alive0, 15004);
  vf_assert(Elem<E>::val(b.src()[b.n]) == b.vals[b.n] && Elem<E>::sound(b.src()[b.n]), 15003);
  b.destroy_dst(b.n); b.src()[b.n].~E();
  vf_reach(1); b.end();
}
OP(relocate_at) {
  Bufs b; b.build(); vf_assume(b.n >= 1);
  E *r = amc::relocate_at(b.src(), b.dst());
  vf_assert(r == b.dst() && Elem<E>::val(*r) == b.vals[0] && Elem<E>::sound(*r), 15002);
  if (Elem<E>::ledger) vf_assert(vf::alive_count() == b.alive0, 15004);
  r->~E();
  for (unsigned i = 1; i < MA_MAX + 1; ++i) { if (i > b.n) break; vf_assert(Elem<E>::val(b.src()[i]) == b.vals[i] && Elem<E>::sound(b.src()[i]), 15003); b.src()[i].~E(); }
  vf_reach(1); b.end();
}
OP(destroy) {
  Bufs b; b.build();
  uint8_t form = nd8(2);
  if (form == 0) amc::destroy(mm(b.src()), mm(b.src() + b.n));
  else if (form == 1) { MutIt r = amc::destroy_n(mm(b.src()), b.n); vf_assert(raw(r) == b.src() + b.n, 15001); }
  else { for (unsigned i = 0; i < MA_MAX; ++i) { if (i >= b.n) break; amc::destroy_at(b.src() + i); } }
  if (Elem<E>::ledger) vf_assert(vf::alive_count() == b.alive0 - b.n, 15004);
  vf_assert(Elem<E>::val(b.src()[b.n]) == b.vals[b.n] && Elem<E>::sound(b.src()[b.n]), 15003);   // nothing past the range is touched
  b.src()[b.n].~E();
  vf_reach(1); b.end();
}
OP(construct_value) {
  Bufs b; b.build();
  uint8_t form = nd8(3);
  E *r = nullptr; bool hasr = false;
  MutIt ri = mm(nullptr);
  if (form == 0) TRYF(b, amc::uninitialized_value_construct(mm(b.dst()), mm(b.dst() + b.n)));
  else if (form == 1) { TRYF(b, ri = amc::uninitialized_value_construct_n(mm(b.dst()), b.n)); hasr = true; }
  else if (form == 2) TRYF(b, amc::uninitialized_default_construct(mm(b.dst()), mm(b.dst() + b.n)));
  else { TRYF(b, ri = amc::uninitialized_default_construct_n(mm(b.dst()), b.n)); hasr = true; }
  (void)r;
  vf::g_fault_at = 0;
  if (b.exc) { ON_THROW_CLEAN(b); }
  else {
    if (hasr) vf_assert(raw(ri) == b.dst() + b.n, 15001);
    // value-initialised: zero for the element kinds used here (default-initialised trivial types are indeterminate: only checked for class types)
    if (form < 2 || Elem<E>::ledger) for (unsigned i = 0; i < MA_MAX; ++i) { if (i >= b.n) break; vf_assert(Elem<E>::val(b.dst()[i]) == 0, 15002); }
    if (Elem<E>::ledger) { vf_assert(vf::alive_count() == b.alive0 + b.n, 15004); for (unsigned i = 0; i < MA_MAX; ++i) { if (i >= b.n) break; vf_assert(Elem<E>::sound(b.dst()[i]), 15002); } }
    b.src_intact(0);
    b.destroy_dst(b.n);
  }
  b.destroy_src(b.n + 1u);
  vf_reach(1); b.end();
}
OP(construct_at) {
  Bufs b; b.build();
  uint8_t x = nd8(); uint8_t form = nd8(2);
  E *r = nullptr;
  if (form == 0) TRYF(b, r = amc::construct_at(b.dst(), Elem<E>::arg(x)));
  else if (form == 1) { E tmp(Elem<E>::make(x)); uint8_t a0 = b.alive0; b.alive0 = vf::alive_count(); TRYF(b, r = amc::construct_at(b.dst(), static_cast<const E &>(tmp))); vf::g_fault_at = 0; if (!b.exc) { vf_assert(Elem<E>::val(tmp) == x && Elem<E>::sound(tmp), 15003); r->~E(); r = nullptr; } else ON_THROW_CLEAN(b); b.alive0 = a0; b.exc = 2; }
  else { E tmp(Elem<E>::make(x)); r = amc::construct_at(b.dst(), std::move(tmp)); vf_assert(r == b.dst() && Elem<E>::val(*r) == x && Elem<E>::sound(*r), 15002); r->~E(); r = nullptr; b.exc = 2; }
  vf::g_fault_at = 0;
  if (b.exc == 1) ON_THROW_CLEAN(b);
  else if (b.exc == 0) { vf_assert(r == b.dst() && Elem<E>::val(*r) == x && Elem<E>::sound(*r), 15002); r->~E(); }
  b.src_intact(0);
  b.destroy_src(b.n + 1u);
  vf_reach(1); b.end();
}
#endif
