/* Native driver for translator validation and counterexample replay.
 *   -DCXX_SIDE : linked with the natively compiled harness.cpp (real headers, real malloc); provides the vf_* environment
 *   otherwise  : linked with the gcc-compiled generated C (vf_rt.h in VF_NATIVE mode)
 * usage: prog <entry> <seed>            pseudo-random nondet stream
 *        VF_REPLAY="v0 v1 ..." prog <entry> 0   fixed stream (trailing draws return 0)
 * exit: 0 PASS, 77 assumption rejected, 1 ASSERT <id> printed, 3 step limit
 */
#include <stdint.h>
#include <stdio.h>
#include <stdlib.h>
#include <string.h>
static uint64_t st;
static uint64_t rnd(void) { st ^= st << 13; st ^= st >> 7; st ^= st << 17; return st; }
static char *rp;
static long draws;
uint64_t vf_native_nondet(int w) {
  (void)w;
  if (++draws > 100000) { printf("STEPLIMIT\n"); exit(3); }
  if (rp) { while (*rp == ' ') rp++; if (!*rp) return 0; return strtoull(rp, &rp, 10); }
  uint64_t r = rnd();
  if ((r >> 60) < 13) r = (r >> 8) % 9;   /* bias to small values so that assumptions are often satisfied */
  return r;
}
void vf_native_obs(uint32_t v) { printf("OBS %u\n", v); }
static int reached[64]; static int nreached;
void vf_native_reach(int id) { for (int i = 0; i < nreached; ++i) if (reached[i] == id) return; if (nreached < 64) reached[nreached++] = id; }
static void dump_reach(void) { printf("REACH"); for (int i = 0; i < nreached; ++i) printf(" %d", reached[i]); printf("\n"); }
void vf_native_assume_fail(void) { exit(77); }
/* harness assertions (id > 0) are recorded and the run continues, so that one divergence is reported under every property
   whose assertion it breaks (the first failing assertion may belong to another property); environment failures abort. */
static int failed_ids[64]; static int nfailed;
static void dump_failed(void) { for (int i = 0; i < nfailed; ++i) printf("ASSERT %d\n", failed_ids[i]); }
void vf_native_assert_fail(int id) {
  if (id > 0) { for (int i = 0; i < nfailed; ++i) if (failed_ids[i] == id) return; if (nfailed < 64) failed_ids[nfailed++] = id; return; }
  dump_reach(); dump_failed(); printf("ASSERT %d\n", id); fflush(stdout); exit(1);
}
#ifdef CXX_SIDE
uint8_t vf_nondet_u8(void) { return (uint8_t)vf_native_nondet(8); }
uint16_t vf_nondet_u16(void) { return (uint16_t)vf_native_nondet(16); }
uint32_t vf_nondet_u32(void) { return (uint32_t)vf_native_nondet(32); }
uint64_t vf_nondet_u64(void) { return vf_native_nondet(64); }
void vf_assume(uint8_t c) { if (!c) vf_native_assume_fail(); }
void vf_assert(uint8_t c, unsigned id) { if (!c) vf_native_assert_fail((int)id); }
void vf_reach(unsigned id) { vf_native_reach((int)id); }
void vf_obs(uint32_t v) { vf_native_obs(v); }
uint8_t *vf_malloc(uint64_t n) { return malloc(n ? n : 1); }
void vf_free_(uint8_t *p) { free(p); }
uint8_t *vf_realloc_(uint8_t *p, uint64_t n) { return realloc(p, n ? n : 1); }
void vf_heap_reset(void) {}
void vf_havoc(uint8_t *p, uint64_t n) { for (uint64_t i = 0; i < n; ++i) p[i] = (uint8_t)(i * 37u + 11u); }
#else
extern void vf_init_globals(void);
#endif
struct vf_entry { const char *name; void (*fn)(void); };
extern struct vf_entry vf_entries[];
int main(int argc, char **argv) {
  if (argc < 3) return 2;
  rp = getenv("VF_REPLAY");
  st = strtoull(argv[2], 0, 10) * 0x9E3779B97F4A7C15ull + 1;
#ifndef CXX_SIDE
  vf_init_globals();
#endif
  for (struct vf_entry *e = vf_entries; e->name; ++e) if (!strcmp(e->name, argv[1])) {
    e->fn(); dump_reach(); if (nfailed) { dump_failed(); fflush(stdout); return 1; } printf("PASS\n"); return 0;
  }
  fprintf(stderr, "no entry %s\n", argv[1]); return 2;
}
