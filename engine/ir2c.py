#!/usr/bin/env python3
"""Prototype LLVM-14 textual IR -> C translator (byte-addressed memory model) for CBMC.

All pointers become uint8_t*, all integers unsigned C ints of the IR width; GEPs become byte
offsets computed with the x86-64 data layout; phis become parallel copies on edges;
invoke/landingpad/resume/__cxa_* become an explicit 'pending exception' protocol.
"""
import re, sys, json

# ---------------------------------------------------------------- tokenizer
TOK = re.compile(r'''
    (?P<ws>\s+|;[^\n]*)
  | (?P<str>c?"(?:[^"\\]|\\.)*")
  | (?P<lid>%(?:"(?:[^"\\]|\\.)*"|[-a-zA-Z$._0-9]+))
  | (?P<gid>@(?:"(?:[^"\\]|\\.)*"|[-a-zA-Z$._0-9]+))
  | (?P<meta>!(?:[-a-zA-Z$._0-9]+|"(?:[^"\\]|\\.)*")?)
  | (?P<attr>\#[0-9]+)
  | (?P<comdat>\$(?:"(?:[^"\\]|\\.)*"|[-a-zA-Z$._0-9]+))
  | (?P<num>-?[0-9]+(?:\.[0-9]+(?:e[-+]?[0-9]+)?)?|0x[0-9A-Fa-f]+)
  | (?P<word>[a-zA-Z_][-a-zA-Z_.0-9]*)
  | (?P<dots>\.\.\.)
  | (?P<p>[=,(){}\[\]<>*|])
''', re.X)

def tokenize(s):
    out = []
    pos = 0
    n = len(s)
    while pos < n:
        m = TOK.match(s, pos)
        if not m:
            raise SyntaxError("bad token at: " + s[pos:pos+60])
        pos = m.end()
        k = m.lastgroup
        if k == 'ws':
            continue
        out.append((k, m.group(k)))
    return out

# ---------------------------------------------------------------- types
class Ty:
    pass
class IntT(Ty):
    def __init__(s, w): s.w = w
    def __repr__(s): return 'i%d' % s.w
class VoidT(Ty):
    def __repr__(s): return 'void'
class PtrT(Ty):
    def __init__(s, to): s.to = to
    def __repr__(s): return 'ptr'
class ArrT(Ty):
    def __init__(s, n, el): s.n, s.el = n, el
    def __repr__(s): return '[%d x %r]' % (s.n, s.el)
class StructT(Ty):
    def __init__(s, fields, packed=False, name=None): s.fields, s.packed, s.name = fields, packed, name
    def __repr__(s): return s.name or ('{' + ','.join(map(repr, s.fields)) + '}')
class NamedT(Ty):
    def __init__(s, name): s.name = name
    def __repr__(s): return s.name
class FuncT(Ty):
    def __init__(s, ret, params, vararg): s.ret, s.params, s.vararg = ret, params, vararg
    def __repr__(s): return 'fn'
class OtherT(Ty):
    def __init__(s, n): s.n = n
    def __repr__(s): return s.n
class FloatT(Ty):
    def __init__(s, n): s.n = n
    def __repr__(s): return s.n

class Module:
    def __init__(self):
        self.named = {}     # %name -> Ty (StructT or None for opaque)
        self.globals = {}   # @name -> dict
        self.funcs = {}     # @name -> Func (defined)
        self.decls = {}     # @name -> (ret, params, attrs)
        self.attrs = {}     # '#N' -> set of words
        self.order = []

    def resolve(self, t):
        while isinstance(t, NamedT):
            r = self.named.get(t.name)
            if r is None:
                raise KeyError('opaque type ' + t.name)
            t = r
        return t

    def sizeof(self, t):
        t = self.resolve(t)
        if isinstance(t, IntT): return max(1, 1 << ((t.w - 1).bit_length() - 3)) if t.w > 8 else 1
        if isinstance(t, PtrT): return 8
        if isinstance(t, FloatT): return {'float': 4, 'double': 8, 'x86_fp80': 16, 'half': 2, 'fp128': 16}[t.n]
        if isinstance(t, ArrT): return t.n * self.sizeof(t.el)
        if isinstance(t, StructT): return self.struct_layout(t)[1]
        raise TypeError('sizeof ' + repr(t))

    def alignof(self, t):
        t = self.resolve(t)
        if isinstance(t, IntT): return min(self.sizeof(t), 16)
        if isinstance(t, PtrT): return 8
        if isinstance(t, FloatT): return {'float': 4, 'double': 8, 'x86_fp80': 16, 'half': 2, 'fp128': 16}[t.n]
        if isinstance(t, ArrT): return self.alignof(t.el)
        if isinstance(t, StructT):
            if t.packed: return 1
            return max([self.alignof(f) for f in t.fields] or [1])
        raise TypeError('alignof ' + repr(t))

    def struct_layout(self, t):
        off = 0
        offs = []
        for f in t.fields:
            a = 1 if t.packed else self.alignof(f)
            off = (off + a - 1) // a * a
            offs.append(off)
            off += self.sizeof(f)
        a = self.alignof(t)
        size = (off + a - 1) // a * a
        return offs, size

# ---------------------------------------------------------------- parser
class P:
    def __init__(self, toks, mod):
        self.t = toks; self.i = 0; self.mod = mod
    def peek(self, k=0):
        return self.t[self.i + k] if self.i + k < len(self.t) else ('eof', '')
    def next(self):
        x = self.peek(); self.i += 1; return x
    def accept(self, v):
        if self.peek()[1] == v:
            self.i += 1; return True
        return False
    def expect(self, v):
        x = self.next()
        if x[1] != v:
            raise SyntaxError('expected %r got %r near %r' % (v, x, self.t[max(0,self.i-6):self.i+4]))
    def at_end(self):
        return self.i >= len(self.t)

    def parse_type(self):
        k, v = self.next()
        if k == 'word':
            if v == 'void': t = VoidT()
            elif re.fullmatch(r'i[0-9]+', v): t = IntT(int(v[1:]))
            elif v in ('float', 'double', 'x86_fp80', 'half', 'fp128'): t = FloatT(v)
            elif v in ('label', 'metadata', 'token', 'ptr', 'opaque'):
                t = OtherT(v) if v != 'ptr' else PtrT(IntT(8))
            else: raise SyntaxError('type? ' + v)
        elif k == 'lid': t = NamedT(v)
        elif v == '[':
            n = int(self.next()[1]); self.expect('x'); el = self.parse_type(); self.expect(']'); t = ArrT(n, el)
        elif v == '{':
            fs = []
            if not self.accept('}'):
                while True:
                    fs.append(self.parse_type())
                    if self.accept('}'): break
                    self.expect(',')
            t = StructT(fs)
        elif v == '<':
            if self.peek()[1] == '{':
                self.next(); fs = []
                if not self.accept('}'):
                    while True:
                        fs.append(self.parse_type())
                        if self.accept('}'): break
                        self.expect(',')
                self.expect('>'); t = StructT(fs, packed=True)
            else:
                n = int(self.next()[1]); self.expect('x'); el = self.parse_type(); self.expect('>')
                raise SyntaxError('vector types unsupported')
        else:
            raise SyntaxError('type? %r' % v)
        while True:
            if self.accept('*'): t = PtrT(t)
            elif self.peek()[1] == '(' and not isinstance(t, OtherT):
                # function type
                self.next(); ps = []; va = False
                if not self.accept(')'):
                    while True:
                        if self.accept('...'): va = True
                        else: ps.append(self.parse_type())
                        if self.accept(')'): break
                        self.expect(',')
                t = FuncT(t, ps, va)
            elif self.peek()[1] == 'addrspace':
                raise SyntaxError('addrspace')
            else: break
        return t

    PARAM_ATTRS = {'noundef','nonnull','zeroext','signext','nocapture','readonly','writeonly','noalias','returned',
                   'immarg','inreg','nest','nofree','swiftself','readnone','byval','sret','inalloca','preallocated'}
    def skip_param_attrs(self):
        while True:
            k, v = self.peek()
            if k == 'word' and v in self.PARAM_ATTRS:
                self.next()
                if self.peek()[1] == '(':   # byval(T), sret(T)
                    self.next(); self.parse_type(); self.expect(')')
            elif k == 'word' and v in ('align', 'dereferenceable', 'dereferenceable_or_null'):
                self.next()
                if self.accept('('):
                    self.next(); self.expect(')')
                else: self.next()
            else: break

    def parse_value(self, ty):
        """returns a value tuple"""
        k, v = self.next()
        if k == 'lid': return ('local', v)
        if k == 'gid': return ('global', v)
        if k == 'num': return ('int', int(v, 0) if not v.startswith('0x') else int(v, 16))
        if k == 'str' and v.startswith('c'):
            return ('bytes', decode_cstr(v))
        if k == 'word':
            if v == 'true': return ('int', 1)
            if v == 'false': return ('int', 0)
            if v == 'null': return ('null',)
            if v in ('undef', 'poison'): return ('undef',)
            if v == 'zeroinitializer': return ('zero',)
            if v == 'getelementptr':
                self.accept('inbounds'); self.expect('(')
                bt = self.parse_type(); self.expect(',')
                pt = self.parse_type(); base = self.parse_value(pt)
                idx = []
                while self.accept(','):
                    self.accept('inrange')
                    it = self.parse_type(); idx.append((it, self.parse_value(it)))
                self.expect(')')
                return ('cgep', bt, base, idx)
            if v in ('bitcast', 'inttoptr', 'ptrtoint', 'trunc', 'zext', 'sext', 'addrspacecast'):
                self.expect('('); ft = self.parse_type(); x = self.parse_value(ft); self.expect('to'); tt = self.parse_type(); self.expect(')')
                return ('ccast', v, ft, x, tt)
            if v in ('add', 'sub', 'mul', 'and', 'or', 'xor', 'shl', 'lshr', 'ashr'):
                while self.peek()[1] in ('nuw', 'nsw', 'exact'): self.next()
                self.expect('('); t1 = self.parse_type(); a = self.parse_value(t1); self.expect(','); t2 = self.parse_type(); b = self.parse_value(t2); self.expect(')')
                return ('cbin', v, t1, a, b)
            if v == 'icmp':
                pred = self.next()[1]
                self.expect('('); t1 = self.parse_type(); a = self.parse_value(t1); self.expect(','); t2 = self.parse_type(); b = self.parse_value(t2); self.expect(')')
                return ('cicmp', pred, t1, a, b)
            if v == 'select':
                self.expect('('); t0 = self.parse_type(); c = self.parse_value(t0); self.expect(','); t1 = self.parse_type(); a = self.parse_value(t1); self.expect(','); t2 = self.parse_type(); b = self.parse_value(t2); self.expect(')')
                return ('cselect', c, t1, a, b)
        if v == '{' or (v == '<' and self.peek()[1] == '{'):
            if v == '<': self.next()
            els = []
            if not self.accept('}'):
                while True:
                    et = self.parse_type(); els.append((et, self.parse_value(et)))
                    if self.accept('}'): break
                    self.expect(',')
            if v == '<': self.expect('>')
            return ('cstruct', els)
        if v == '[':
            els = []
            if not self.accept(']'):
                while True:
                    et = self.parse_type(); els.append((et, self.parse_value(et)))
                    if self.accept(']'): break
                    self.expect(',')
            return ('carray', els)
        raise SyntaxError('value? %r %r' % (k, v))

    def parse_typed_value(self):
        t = self.parse_type()
        self.skip_param_attrs()
        return t, self.parse_value(t)

def decode_cstr(v):
    s = v[2:-1]
    out = bytearray(); i = 0
    while i < len(s):
        if s[i] == '\\':
            if s[i+1] == '\\': out.append(92); i += 2
            else: out.append(int(s[i+1:i+3], 16)); i += 3
        else:
            out.append(ord(s[i])); i += 1
    return bytes(out)

class Func:
    def __init__(self, name, ret, params, attrs):
        self.name, self.ret, self.params, self.attrs = name, ret, params, attrs
        self.blocks = []   # list of (label, [instr])
        self.personality = False

LINKAGE = {'private','internal','available_externally','linkonce','weak','common','appending','extern_weak','linkonce_odr','weak_odr','external',
           'dso_local','dso_preemptable','default','hidden','protected','unnamed_addr','local_unnamed_addr','thread_local','dllimport','dllexport',
           'noundef','nonnull','zeroext','signext','noalias','fastcc','ccc','coldcc'}

def parse_module(text):
    mod = Module()
    lines = text.split('\n')
    i = 0
    while i < len(lines):
        ln = lines[i]
        s = ln.strip()
        i += 1
        if not s or s.startswith(';') or s.startswith('source_filename') or s.startswith('target ') or s.startswith('!') or s.startswith('$'):
            continue
        if s.startswith('attributes '):
            m = re.match(r'attributes (#\d+) = \{(.*)\}', s)
            words = set(re.findall(r'(?<!")\b([a-z_]+)\b(?!")', re.sub(r'"[^"]*"(="[^"]*")?', '', m.group(2))))
            mod.attrs[m.group(1)] = words
            continue
        if s.startswith('%') and ' = type ' in s:
            toks = tokenize(s)
            name = toks[0][1]
            p = P(toks[3:], mod)
            if toks[3][1] == 'opaque':
                mod.named[name] = None
            else:
                t = p.parse_type(); t.name = name
                mod.named[name] = t
            continue
        if s.startswith('@'):
            toks = tokenize(s)
            p = P(toks, mod)
            name = p.next()[1]; p.expect('=')
            ext = False
            while p.peek()[0] == 'word' and p.peek()[1] in LINKAGE:
                if p.peek()[1] == 'external' or p.peek()[1] == 'extern_weak': ext = True
                p.next()
            kind = p.next()[1]
            assert kind in ('global', 'constant'), s
            ty = p.parse_type()
            init = None
            if not ext and not p.at_end() and p.peek()[1] != ',':
                init = p.parse_value(ty)
            align = None
            m = re.search(r', align (\d+)', s)
            if m: align = int(m.group(1))
            mod.globals[name] = dict(ty=ty, init=init, const=(kind == 'constant'), ext=ext, align=align)
            mod.order.append(name)
            continue
        if s.startswith('declare '):
            toks = tokenize(s)
            p = P(toks[1:], mod)
            while p.peek()[0] == 'word' and p.peek()[1] in LINKAGE: p.next()
            p.skip_param_attrs()
            ret = p.parse_type()
            name = p.next()[1]
            p.expect('(')
            params = []; va = False
            if not p.accept(')'):
                while True:
                    if p.accept('...'): va = True
                    else:
                        params.append(p.parse_type()); p.skip_param_attrs()
                    if p.accept(')'): break
                    p.expect(',')
            attrs = set()
            while not p.at_end():
                k, v = p.next()
                if k == 'attr': attrs |= mod.attrs_lazy(v) if hasattr(mod, 'attrs_lazy') else {('#', v)}
                elif k == 'word': attrs.add(v)
            mod.decls[name] = (ret, params, va, attrs)
            continue
        if s.startswith('define '):
            hdr = s
            toks = tokenize(hdr.rstrip('{'))
            p = P(toks[1:], mod)
            while p.peek()[0] == 'word' and p.peek()[1] in LINKAGE: p.next()
            p.skip_param_attrs()
            ret = p.parse_type()
            name = p.next()[1]
            p.expect('(')
            params = []
            if not p.accept(')'):
                while True:
                    if p.accept('...'):
                        raise SyntaxError('vararg define')
                    pt = p.parse_type(); p.skip_param_attrs()
                    pn = p.next()[1]
                    params.append((pt, pn))
                    if p.accept(')'): break
                    p.expect(',')
            attrs = set()
            while not p.at_end():
                k, v = p.next()
                if k == 'attr': attrs.add(('#', v))
                elif k == 'word':
                    attrs.add(v)
                    if v == 'personality': break
            f = Func(name, ret, params, attrs)
            # body
            cur = None
            nparams = len(params)
            first_label = None
            body = []
            while True:
                ln = lines[i]; i += 1
                st = ln.strip()
                if st == '}': break
                if not st or st.startswith(';'): continue
                m = re.match(r'^([-a-zA-Z$._0-9]+|"[^"]*"):', st)
                if m and not ln.startswith(' '):
                    cur = [m.group(1).strip('"'), []]
                    f.blocks.append(cur)
                    continue
                if cur is None:
                    cur = [None, []]   # implicit entry label
                    f.blocks.append(cur)
                # join continuation lines (landingpad clauses, switch tables, invoke 'to label')
                full = st
                while i < len(lines):
                    nxt = lines[i].strip()
                    if full.endswith('[') or (full.startswith('switch') and not full.endswith(']')) \
                       or nxt.startswith('to label') or nxt.startswith('catch ') or nxt.startswith('cleanup') or nxt.startswith('filter '):
                        full += ' ' + nxt; i += 1
                    else: break
                cur[1].append(full)
            mod.funcs[name] = f
            continue
        raise SyntaxError('toplevel? ' + s[:80])
    return mod

# ---------------------------------------------------------------- C emission
def cname(n):
    n = n[1:]
    if n.startswith('"'): n = n[1:-1]
    return re.sub(r'[^A-Za-z0-9_]', lambda m: '_%02x' % ord(m.group(0)), n)

def cint(w):
    if w <= 8: return 'uint8_t'
    if w <= 16: return 'uint16_t'
    if w <= 32: return 'uint32_t'
    if w <= 64: return 'uint64_t'
    if w <= 128: return 'unsigned __int128'
    raise TypeError('int width %d' % w)
def csint(w):
    if w <= 8: return 'int8_t'
    if w <= 16: return 'int16_t'
    if w <= 32: return 'int32_t'
    if w <= 64: return 'int64_t'
    if w <= 128: return '__int128'
    raise TypeError('int width %d' % w)
def cwidth(w):
    for x in (8, 16, 32, 64, 128):
        if w <= x: return x

class Emitter:
    def __init__(self, mod, prefix='', opts=None):
        self.mod = mod
        self.prefix = prefix
        self.opts = opts or {}
        self.structs = {}   # key -> name
        self.struct_defs = []
        self.typeids = {}
        self.out = []
        self.used_ext = set()
        self.addr_only = set()
        self.need_globals = set()

    def ctype(self, t):
        t0 = t
        t = self.mod.resolve(t) if not (isinstance(t, NamedT) and self.mod.named.get(t.name) is None) else t
        if isinstance(t, VoidT): return 'void'
        if isinstance(t, IntT): return cint(t.w)
        if isinstance(t, PtrT): return 'uint8_t*'
        if isinstance(t, StructT) or isinstance(t, ArrT):
            key = self.tykey(t)
            if key not in self.structs:
                nm = '%sagg%d' % (self.prefix, len(self.structs))
                self.structs[key] = nm
                if isinstance(t, StructT):
                    fs = ' '.join('%s f%d;' % (self.ctype(f), i) for i, f in enumerate(t.fields))
                else:
                    fs = '%s a[%d];' % (self.ctype(t.el), t.n)
                self.struct_defs.append('typedef struct { %s } %s;' % (fs or 'char dummy;', nm))
            return self.structs[key]
        raise TypeError('ctype ' + repr(t0))

    def ti_name(self, v):
        # value designating a type_info global (possibly through a bitcast constant expression)
        while v[0] == 'ccast': v = v[3]
        if v[0] == 'cgep': v = v[2]
        assert v[0] == 'global', v
        return v[1]

    def typeid_of(self, v):
        if v[0] == 'null': return 1
        n = self.ti_name(v)
        if n not in self.typeids: self.typeids[n] = 2 + len(self.typeids)
        return self.typeids[n]

    STD_BASES = {'@_ZTISt14overflow_error': '@_ZTISt13runtime_error', '@_ZTISt13runtime_error': '@_ZTISt9exception',
                 '@_ZTISt12out_of_range': '@_ZTISt11logic_error', '@_ZTISt12length_error': '@_ZTISt11logic_error',
                 '@_ZTISt11logic_error': '@_ZTISt9exception', '@_ZTISt9bad_alloc': '@_ZTISt9exception',
                 '@_ZTISt16invalid_argument': '@_ZTISt11logic_error', '@_ZTISt18bad_variant_access': '@_ZTISt9exception',
                 '@_ZTISt19bad_optional_access': '@_ZTISt9exception'}

    def ti_base(self, n):
        if n in self.STD_BASES: return self.STD_BASES[n]
        g = self.mod.globals.get(n)
        if g and g['init'] and g['init'][0] == 'cstruct' and len(g['init'][1]) == 3:
            try: return self.ti_name(g['init'][1][2][1])
            except Exception: return None
        return None

    def emit_exc_tables(self):
        # vf_exc_matches(catch_ti): thrown type (vf_exc_ti) is catch_ti or derives from it (single inheritance chains)
        ls = ['static uint8_t %svf_exc_matches(uint8_t *c) {' % self.prefix, '  if (vf_exc_ti == c) return 1;']
        names = set(self.typeids)
        chains = {}
        todo = set(self.mod.globals)
        for n in [g for g in self.mod.globals if g.startswith('@_ZTI')]:
            chain = []; b = self.ti_base(n); k = 0
            while b and k < 8:
                chain.append(b); b = self.ti_base(b); k += 1
            chain = [b for b in chain if b in names]
            if chain: chains[n] = chain
        for n, chain in sorted(chains.items()):
            self.need_globals.add(n)
            for b in chain: self.need_globals.add(b)
            ls.append('  if (vf_exc_ti == (uint8_t*)%s && (%s)) return 1;' % (self.gname(n), ' || '.join('c == (uint8_t*)%s' % self.gname(b) for b in chain)))
        ls.append('  return 0;\n}')
        return '\n'.join(ls)

    def tykey(self, t):
        t = self.mod.resolve(t)
        if isinstance(t, IntT): return 'i%d' % t.w
        if isinstance(t, PtrT): return 'p'
        if isinstance(t, ArrT): return '[%d x %s]' % (t.n, self.tykey(t.el))
        if isinstance(t, StructT): return ('<{' if t.packed else '{') + ','.join(self.tykey(f) for f in t.fields) + '}'
        if isinstance(t, FloatT): return t.n
        raise TypeError('tykey ' + repr(t))

    # ---- constants
    def const_expr(self, ty, v, fn=None):
        """C expression for value v of IR type ty"""
        k = v[0]
        rt = self.mod.resolve(ty) if not isinstance(ty, (OtherT,)) else ty
        if k == 'local':
            return fn.local(v[1])
        if k == 'global':
            nm = v[1]
            if nm in self.mod.funcs or nm in self.mod.decls:
                if nm not in getattr(self, 'funcs_emitted', ()):
                    self.addr_only.add(nm)
                    if nm in self.mod.decls and not nm.startswith('@llvm.') and nm[1:] not in EXT_MAP and not nm.startswith('@vf_'):
                        return '((uint8_t*)&%s)' % self.fname(nm)
                    return '((uint8_t*)&%saddr_%s)' % (self.prefix, cname(nm))
                return '((uint8_t*)&%s)' % self.fname(nm)
            return '((uint8_t*)%s)' % self.gname(nm)
        if k == 'int':
            w = rt.w
            val = v[1] & ((1 << w) - 1)
            if w > 64:
                hi, lo = val >> 64, val & ((1 << 64) - 1)
                return '((((unsigned __int128)%dULL)<<64)|%dULL)' % (hi, lo)
            return '((%s)%dULL)' % (cint(w), val)
        if k == 'null': return '((uint8_t*)0)'
        if k == 'undef':
            if isinstance(rt, IntT): return '((%s)vf_undef())' % cint(rt.w)
            if isinstance(rt, PtrT): return '((uint8_t*)0)'
            return self.zero_of(rt)
        if k == 'zero':
            return self.zero_of(rt)
        if k == 'cgep':
            _, bt, base, idx = v
            off = self.gep_offset_expr(bt, idx, fn)
            return '(%s + %s)' % (self.const_expr(PtrT(bt), base, fn), off)
        if k == 'ccast':
            _, op, ft, x, tt = v
            return self.cast_expr(op, ft, self.const_expr(ft, x, fn), tt)
        if k == 'cbin':
            _, op, t1, a, b = v
            return self.bin_expr(op, t1, self.const_expr(t1, a, fn), self.const_expr(t1, b, fn))
        if k == 'cicmp':
            _, pred, t1, a, b = v
            return self.icmp_expr(pred, t1, self.const_expr(t1, a, fn), self.const_expr(t1, b, fn))
        if k == 'cselect':
            _, c, t1, a, b = v
            return '(%s ? %s : %s)' % (self.const_expr(IntT(1), c, fn), self.const_expr(t1, a, fn), self.const_expr(t1, b, fn))
        if k == 'cstruct':
            return '((%s){%s})' % (self.ctype(rt), ', '.join(self.const_expr(t, x, fn) for t, x in v[1]))
        raise TypeError('const_expr %r' % (v,))

    def zero_of(self, rt):
        if isinstance(rt, IntT): return '((%s)0)' % cint(rt.w)
        if isinstance(rt, PtrT): return '((uint8_t*)0)'
        return '((%s){0})' % self.ctype(rt)

    def gname(self, n): return self.prefix + 'g_' + cname(n)
    def fname(self, n):
        c = cname(n)
        if n in self.mod.funcs: return self.prefix + c
        return c

    def gep_offset_expr(self, bt, idx, fn):
        """idx: list of (type, value); first index scales by sizeof(bt)"""
        const = 0
        terms = []
        cur = bt
        for n, (it, iv) in enumerate(idx):
            if n == 0:
                stride = self.mod.sizeof(cur)
            else:
                r = self.mod.resolve(cur)
                if isinstance(r, StructT):
                    assert iv[0] == 'int', 'struct gep index must be const'
                    offs, _ = self.mod.struct_layout(r)
                    const += offs[iv[1]]
                    cur = r.fields[iv[1]]
                    continue
                elif isinstance(r, ArrT):
                    cur = r.el
                    stride = self.mod.sizeof(cur)
                else:
                    raise TypeError('gep into ' + repr(r))
            if iv[0] == 'int':
                val = iv[1]
                w = self.mod.resolve(it).w
                if val >= 1 << (w - 1): val -= 1 << w
                const += val * stride
            else:
                w = self.mod.resolve(it).w
                e = self.const_expr(it, iv, fn)
                terms.append('((int64_t)(%s)%s) * %dLL' % (csint(w), e, stride))
        terms.append('%dLL' % const)
        return '(' + ' + '.join(terms) + ')'

    def cast_expr(self, op, ft, e, tt):
        rf = self.mod.resolve(ft); rt = self.mod.resolve(tt)
        if op in ('bitcast', 'addrspacecast'):
            if isinstance(rf, PtrT) and isinstance(rt, PtrT): return e
            if isinstance(rf, IntT) and isinstance(rt, IntT): return e
            raise TypeError('bitcast %r->%r' % (rf, rt))
        if op == 'inttoptr': return '((uint8_t*)(uintptr_t)%s)' % e
        if op == 'ptrtoint': return '((%s)(uintptr_t)%s)' % (cint(rt.w), e)
        if op == 'trunc': return self.norm('((%s)%s)' % (cint(rt.w), e), rt.w)
        if op == 'zext': return '((%s)%s)' % (cint(rt.w), e)
        if op == 'sext':
            return self.norm('((%s)%s)' % (cint(rt.w), self.as_signed(e, rf.w)), rt.w)
        raise TypeError(op)

    def norm(self, e, w):
        cw = cwidth(w)
        if cw == w: return e
        return '((%s)(%s & %s))' % (cint(w), e, hex((1 << w) - 1) + 'ULL')

    def as_signed(self, e, w):
        cw = cwidth(w)
        if cw == w: return '((%s)%s)' % (csint(w), e)
        # sign extend odd width
        return '((%s)((%s)((%s)%s << %d)) >> %d)' % (csint(w), csint(w), cint(w), e, cw - w, cw - w)

    def bin_expr(self, op, ty, a, b):
        w = self.mod.resolve(ty).w
        big = 'unsigned __int128' if w > 64 else 'uint64_t'
        sbig = '__int128' if w > 64 else 'int64_t'
        ct = cint(w)
        if op in ('add', 'sub', 'mul', 'and', 'or', 'xor'):
            sym = {'add': '+', 'sub': '-', 'mul': '*', 'and': '&', 'or': '|', 'xor': '^'}[op]
            return self.norm('((%s)((%s)%s %s (%s)%s))' % (ct, big, a, sym, big, b), w)
        if op == 'udiv': return '((%s)((%s)%s / (%s)%s))' % (ct, big, a, big, b)
        if op == 'urem': return '((%s)((%s)%s %% (%s)%s))' % (ct, big, a, big, b)
        if op == 'sdiv': return self.norm('((%s)((%s)%s / (%s)%s))' % (ct, sbig, self.as_signed(a, w), sbig, self.as_signed(b, w)), w)
        if op == 'srem': return self.norm('((%s)((%s)%s %% (%s)%s))' % (ct, sbig, self.as_signed(a, w), sbig, self.as_signed(b, w)), w)
        if op == 'shl': return self.norm('((%s)((%s)%s << ((%s)%s & %d)))' % (ct, big, a, big, b, (128 if w > 64 else 64) - 1), w)
        if op == 'lshr': return '((%s)((%s)%s >> ((%s)%s & %d)))' % (ct, big, a, big, b, (128 if w > 64 else 64) - 1)
        if op == 'ashr': return self.norm('((%s)((%s)%s >> ((%s)%s & %d)))' % (ct, sbig, self.as_signed(a, w), big, b, (128 if w > 64 else 64) - 1), w)
        raise TypeError(op)

    def icmp_expr(self, pred, ty, a, b):
        rt = self.mod.resolve(ty)
        if isinstance(rt, PtrT):
            a = '((uintptr_t)%s)' % a; b = '((uintptr_t)%s)' % b
            if pred in ('eq', 'ne'):
                pass
            w = 64
        else:
            w = rt.w
        sym = {'eq': '==', 'ne': '!=', 'ugt': '>', 'uge': '>=', 'ult': '<', 'ule': '<=',
               'sgt': '>', 'sge': '>=', 'slt': '<', 'sle': '<='}[pred]
        if pred[0] == 's':
            a = self.as_signed(a, w); b = self.as_signed(b, w)
            return '((uint8_t)((%s)%s %s (%s)%s))' % ('__int128' if w > 64 else 'int64_t', a, sym, '__int128' if w > 64 else 'int64_t', b)
        big = 'unsigned __int128' if w > 64 else 'uint64_t'
        return '((uint8_t)((%s)%s %s (%s)%s))' % (big, a, sym, big, b)

    # ---- module
    def callees_of(self, n):
        """defined functions referenced (called or address-taken, also through global tables) by function n"""
        mod = self.mod
        out = set(); gseen = set()
        def scan_text(txt):
            for g in re.findall(r'@(?:"[^"]*"|[-a-zA-Z$._0-9]+)', txt):
                if g in mod.funcs: out.add(g)
                elif g in mod.globals and g not in gseen:
                    gseen.add(g)
                    scan_val(mod.globals[g]['init'])
        def scan_val(v):
            if isinstance(v, tuple):
                if len(v) == 2 and v[0] == 'global' and isinstance(v[1], str):
                    g = v[1]
                    if g in mod.funcs: out.add(g)
                    elif g in mod.globals and g not in gseen:
                        gseen.add(g); scan_val(mod.globals[g]['init'])
                for x in v: scan_val(x)
            elif isinstance(v, list):
                for x in v: scan_val(x)
        for lab, ins in mod.funcs[n].blocks:
            for s_ in ins: scan_text(s_)
        return out

    def reach(self, roots):
        todo = list(roots); seen = []
        seenset = set()
        while todo:
            n = todo.pop()
            if n in seenset or n not in self.mod.funcs: continue
            seenset.add(n); seen.append(n)
            for g in self.callees_of(n):
                if g not in seenset: todo.append(g)
        return seenset

    def emit_module(self, roots=None):
        mod = self.mod
        if roots:
            roots = list(roots)
            # the hook functions are called by code the translator inserts, not by the IR: keep them
            if self.opts.get('hook_stores') and '@vf_on_write' in mod.funcs: roots.append('@vf_on_write')
            if self.opts.get('hook_loads') and '@vf_on_read' in mod.funcs: roots.append('@vf_on_read')
            seen = self.reach(roots)
            funcs = [n for n in mod.funcs if n in seen]
        else:
            funcs = list(mod.funcs)
        self.funcs_emitted = funcs
        body = []
        for n in funcs:
            body.append(FnEmitter(self, mod.funcs[n]).emit())
        exc = self.emit_exc_tables()
        text = '\n'.join(body) + exc
        gl = []
        ginit = []
        needed = set(self.need_globals)
        def scan(txt):
            hit = False
            for m in re.finditer(r'\b' + re.escape(self.prefix) + r'g_([A-Za-z0-9_]+)\b', txt):
                n = self.gmap.get(m.group(1))
                if n is not None and n not in needed:
                    needed.add(n); hit = True
            return hit
        self.gmap = {cname(n): n for n in mod.order}
        scan(text)
        gtexts = {}
        while True:
            new = [n for n in mod.order if n in needed and n not in gtexts]
            if not new: break
            for n in new:
                gtexts[n] = self.emit_global(n)
                scan(gtexts[n][0] + gtexts[n][1])
        for n in mod.order:
            if n in gtexts:
                gl.append(gtexts[n][0]); ginit.append(gtexts[n][1])
        protos = []
        for n in funcs:
            protos.append(FnEmitter(self, mod.funcs[n]).proto() + ';')
        exts = []
        for n in sorted(self.used_ext | (self.addr_only & set(mod.decls))):
            if n in mod.decls and not n.startswith('@llvm.') and not n.startswith('@vf_') and n[1:] not in EXT_MAP:
                ret, params, va, attrs = mod.decls[n]
                ps = ', '.join('%s a%d' % (self.ctype(p), i) for i, p in enumerate(params)) or 'void'
                rt = self.mod.resolve(ret) if not isinstance(ret, VoidT) else ret
                body = 'VF_FAIL(5, "unmodelled external function %s (bound)");' % n[1:]
                if not isinstance(rt, VoidT): body += ' return %s;' % self.zero_of(rt)
                # an external function without a model: reaching it makes the query inconclusive (never silently havocked)
                exts.append('%s %s(%s) { %s }' % (self.ctype(ret), self.fname(n), ps, body))
        self.unmodelled = [n[1:] for n in sorted(self.used_ext) if n in mod.decls and not n.startswith('@llvm.') and not n.startswith('@vf_') and n[1:] not in EXT_MAP]
        self.mutable_globals = [n for n in gtexts if not mod.globals[n]['const'] and not mod.globals[n]['ext']]
        res = []
        res += self.struct_defs
        res += exts
        res += ['static uint8_t %saddr_%s;' % (self.prefix, cname(n)) for n in sorted(self.addr_only) if n not in mod.decls or n.startswith('@llvm.') or n[1:] in EXT_MAP]
        res += protos
        res += gl
        res.append(exc)
        res.append('void %svf_init_globals(void) {\n%s\n}' % (self.prefix, '\n'.join(x for x in ginit if x)))
        res += body
        return '\n'.join(res)

    def emit_global(self, n):
        g = self.mod.globals[n]
        nm = self.gname(n)
        try:
            size = self.mod.sizeof(g['ty'])
        except Exception:
            size = 8
        align = g['align'] or 8
        decl = 'uint8_t %s[%d] __attribute__((aligned(%d)))' % (nm, max(size, 1), align)
        if g['ext'] or g['init'] is None:
            return (decl + ';', '')
        bs = bytearray(size)
        stores = []
        self.fill_init(g['ty'], g['init'], 0, bs, stores, nm)
        if any(bs):
            decl += ' = {' + ','.join(str(b) for b in bs) + '}'
        return (decl + ';', '\n'.join(stores))

    def fill_init(self, ty, v, off, bs, stores, nm):
        rt = self.mod.resolve(ty)
        k = v[0]
        if k in ('zero', 'undef'): return
        if isinstance(rt, IntT):
            if k == 'int':
                val = v[1] & ((1 << (8 * self.mod.sizeof(rt))) - 1)
                for i in range(self.mod.sizeof(rt)): bs[off + i] = (val >> (8 * i)) & 255
                return
            stores.append('  *(%s*)(%s + %d) = %s;' % (cint(rt.w), nm, off, self.const_expr(rt, v)))
            return
        if isinstance(rt, PtrT):
            if k == 'null': return
            stores.append('  *(uint8_t**)(%s + %d) = %s;' % (nm, off, self.const_expr(rt, v)))
            return
        if isinstance(rt, ArrT):
            if k == 'bytes':
                bs[off:off + len(v[1])] = v[1]; return
            es = self.mod.sizeof(rt.el)
            for i, (et, ev) in enumerate(v[1]): self.fill_init(et, ev, off + i * es, bs, stores, nm)
            return
        if isinstance(rt, StructT):
            offs, _ = self.mod.struct_layout(rt)
            for i, (et, ev) in enumerate(v[1]): self.fill_init(et, ev, off + offs[i], bs, stores, nm)
            return
        raise TypeError('init ' + repr(rt))

INTRINSIC_HANDLED = set()

class FnEmitter:
    def __init__(self, em, f):
        self.em, self.f, self.mod = em, f, em.mod
        self.types = {}     # local -> IR type
        self.decls = []
        self.lines = []
        self.tmpn = 0
        for t, n in f.params: self.types[n] = t

    def local(self, n): return 'v_' + cname(n)

    def hook(self, k):
        return self.em.opts.get(k) and not self.f.name.startswith('@vf_')

    def may_throw_callee(self, callee, call_attrs):
        if 'nounwind' in call_attrs: return False
        if callee and callee[0] == 'global':
            n = callee[1]
            if n in self.mod.funcs:
                return not self.fn_nounwind(self.mod.funcs[n].attrs)
            if n in self.mod.decls:
                at = self.mod.decls[n][3]
                if self.fn_nounwind(at): return False
                base = n[1:]
                if base in NOTHROW_EXT: return False
                return True
        return True

    def fn_nounwind(self, attrs):
        for a in attrs:
            if a == 'nounwind': return True
            if isinstance(a, tuple) and 'nounwind' in self.mod.attrs.get(a[1], ()): return True
        return False

    def proto(self):
        f = self.f
        ps = ', '.join('%s %s' % (self.em.ctype(t), self.local(n)) for t, n in f.params) or 'void'
        return '%s %s(%s)' % (self.em.ctype(f.ret), self.em.fname(f.name), ps)

    def val(self, ty, v): return self.em.const_expr(ty, v, self)

    def define(self, name, ty):
        self.types[name] = ty
        self.decls.append('%s %s;' % (self.em.ctype(ty), self.local(name)))
        return self.local(name)

    def zero_ret(self):
        if isinstance(self.f.ret, VoidT): return 'return;'
        return 'return %s;' % self.em.zero_of(self.mod.resolve(self.f.ret))

    def emit(self):
        f = self.f
        # label names: entry block implicit label = number of params (unnamed) -- find by preds; we name by given labels
        self.blocknames = []
        # compute implicit entry label: first unnamed value number
        nump = 0
        for t, n in f.params:
            if re.fullmatch(r'%\d+', n): nump = max(nump, int(n[1:]) + 1)
        for b in f.blocks:
            if b[0] is None: b[0] = str(nump)
        # first pass: parse instructions
        parsed = []
        for lab, ins in f.blocks:
            pis = []
            for s in ins:
                pis.append(self.parse_instr(s))
            parsed.append((lab, pis))
        parsed = self.rpo(parsed)
        self.ptr_peephole(parsed)
        # collect phis per block
        self.phis = {}
        for lab, pis in parsed:
            self.phis[lab] = [p for p in pis if p['op'] == 'phi']
        # declare all result locals first (types known from parse)
        for lab, pis in parsed:
            for p in pis:
                if p.get('res') and p.get('ty') is not None and not isinstance(p['ty'], VoidT):
                    self.define(p['res'], p['ty'])
        out = []
        for lab, pis in parsed:
            out.append('L_%s: ;' % cname('%' + lab))
            self.cur = lab
            for p in pis:
                if p['op'] == 'phi': continue
                for l in self.emit_instr(p): out.append('  ' + l)
        hdr = self.proto() + ' {\n'
        hdr += '\n'.join('  ' + d for d in self.decls) + '\n'
        return hdr + '\n'.join(out) + '\n}\n'

    def rpo(self, parsed):
        """Emit blocks in reverse post-order so that only genuine loop back-edges become backward gotos.
        (CBMC identifies loops by backward gotos; a forward CFG edge that happens to point to an earlier block in the
        IR's textual order - e.g. to a loop latch placed before some body blocks - is otherwise treated as a loop of its
        own, with unwinding counters that never reset.)"""
        idx = {lab: i for i, (lab, _) in enumerate(parsed)}
        succs = {}
        for lab, pis in parsed:
            t = pis[-1] if pis else None
            ss = []
            if t is not None:
                if t['op'] == 'br': ss = [t['dest']] if 'dest' in t else [t['a'], t['b']]
                elif t['op'] == 'switch': ss = [t['dflt']] + [l for _, l in t['cases']]
                elif t['op'] == 'invoke': ss = [t['normal'], t['unwind']]
            succs[lab] = [x for x in ss if x in idx]
        seen = set(); post = []
        entry = parsed[0][0]
        stack = [(entry, iter(sorted(set(succs[entry]), key=lambda l: -idx[l])))]
        seen.add(entry)
        while stack:
            lab, it = stack[-1]
            nxt = next(it, None)
            if nxt is None:
                post.append(lab); stack.pop()
            elif nxt not in seen:
                seen.add(nxt)
                stack.append((nxt, iter(sorted(set(succs[nxt]), key=lambda l: -idx[l]))))
        order = list(reversed(post))
        rest = [lab for lab, _ in parsed if lab not in seen]     # unreachable blocks keep their place at the end
        bymap = dict(parsed)
        return [(lab, bymap[lab]) for lab in order + rest]

    def ptr_peephole(self, parsed):
        """i64 loads used only by inttoptr become pointer loads; ptrtoint used only by i64 stores become pointer stores.
        Keeps CBMC's points-to information instead of laundering pointers through integers."""
        uses = {}
        defs = {}
        def scan(v, user):
            if isinstance(v, tuple):
                if len(v) == 2 and v[0] == 'local' and isinstance(v[1], str): uses.setdefault(v[1], []).append(user)
                for x in v: scan(x, user)
            elif isinstance(v, list):
                for x in v: scan(x, user)
        for lab, pis in parsed:
            for p in pis:
                if p.get('res'): defs[p['res']] = p
                for k, v in p.items():
                    if k in ('res', 'src', 'op', 'ty'): continue
                    scan(v, p)
        for lab, pis in parsed:
            for p in pis:
                if p['op'] == 'load' and isinstance(p['ty'], IntT) and p['ty'].w == 64:
                    us = uses.get(p['res'], [])
                    if us and all(u['op'] == 'inttoptr' for u in us):
                        p['ty'] = PtrT(IntT(8))
                        for u in us: u['op'] = 'bitcast'; u['ft'] = PtrT(IntT(8))
                if p['op'] == 'ptrtoint' and isinstance(p['ty'], IntT) and p['ty'].w == 64:
                    us = uses.get(p['res'], [])
                    if us and all(u['op'] == 'store' and u['x'] == ('local', p['res']) for u in us):
                        p['op'] = 'bitcast'; p['ty'] = PtrT(IntT(8))
                        for u in us: u['vty'] = PtrT(IntT(8))

    # ---- instruction parsing
    def parse_instr(self, s):
        toks = tokenize(s)
        # strip trailing metadata/attrs: ", !tbaa !5", "#9"
        cut = len(toks)
        for i, (k, v) in enumerate(toks):
            if k == 'meta' and i > 0 and toks[i-1][1] == ',':
                cut = i - 1; break
        toks = toks[:cut]
        p = P(toks, self.mod)
        res = None
        if p.peek()[0] == 'lid' and p.peek(1)[1] == '=':
            res = p.next()[1]; p.next()
        op = p.next()[1]
        d = dict(op=op, res=res, src=s)
        if op in ('add', 'sub', 'mul', 'udiv', 'sdiv', 'urem', 'srem', 'shl', 'lshr', 'ashr', 'and', 'or', 'xor'):
            while p.peek()[1] in ('nuw', 'nsw', 'exact'): p.next()
            t = p.parse_type(); a = p.parse_value(t); p.expect(','); b = p.parse_value(t)
            d.update(ty=t, a=a, b=b)
        elif op == 'icmp':
            pred = p.next()[1]; t = p.parse_type(); a = p.parse_value(t); p.expect(','); b = p.parse_value(t)
            d.update(ty=IntT(1), pred=pred, oty=t, a=a, b=b)
        elif op in ('trunc', 'zext', 'sext', 'bitcast', 'inttoptr', 'ptrtoint', 'addrspacecast'):
            ft = p.parse_type(); x = p.parse_value(ft); p.expect('to'); tt = p.parse_type()
            d.update(ty=tt, ft=ft, x=x)
        elif op == 'freeze':
            t = p.parse_type(); x = p.parse_value(t); d.update(ty=t, x=x)
        elif op == 'select':
            ct = p.parse_type(); c = p.parse_value(ct); p.expect(','); t = p.parse_type(); a = p.parse_value(t); p.expect(','); t2 = p.parse_type(); b = p.parse_value(t2)
            d.update(ty=t, c=c, a=a, b=b)
        elif op == 'getelementptr':
            p.accept('inbounds')
            bt = p.parse_type(); p.expect(','); pt = p.parse_type(); base = p.parse_value(pt)
            idx = []
            while p.accept(','):
                it = p.parse_type(); idx.append((it, p.parse_value(it)))
            d.update(ty=PtrT(IntT(8)), bt=bt, base=base, idx=idx)
        elif op == 'load':
            p.accept('atomic'); p.accept('volatile')
            t = p.parse_type(); p.expect(','); pt = p.parse_type(); a = p.parse_value(pt)
            d.update(ty=t, ptr=a)
        elif op == 'store':
            p.accept('atomic'); p.accept('volatile')
            t = p.parse_type(); x = p.parse_value(t); p.expect(','); pt = p.parse_type(); a = p.parse_value(pt)
            d.update(ty=None, vty=t, x=x, ptr=a)
        elif op == 'alloca':
            t = p.parse_type()
            n = None; align = None
            while p.accept(','):
                if p.accept('align'): align = int(p.next()[1])
                else:
                    nt = p.parse_type(); n = (nt, p.parse_value(nt))
            d.update(ty=PtrT(IntT(8)), aty=t, n=n, align=align)
        elif op == 'phi':
            t = p.parse_type(); inc = []
            while True:
                p.expect('['); v = p.parse_value(t); p.expect(','); l = p.next()[1]; p.expect(']')
                inc.append((v, l[1:].strip('"')))
                if not p.accept(','): break
            d.update(ty=t, inc=inc)
        elif op == 'br':
            if p.peek()[1] == 'label':
                p.next(); d.update(ty=None, dest=p.next()[1][1:].strip('"'))
            else:
                ct = p.parse_type(); c = p.parse_value(ct); p.expect(','); p.expect('label'); a = p.next()[1]; p.expect(','); p.expect('label'); b = p.next()[1]
                d.update(ty=None, c=c, a=a[1:].strip('"'), b=b[1:].strip('"'))
        elif op == 'switch':
            t = p.parse_type(); v = p.parse_value(t); p.expect(','); p.expect('label'); dflt = p.next()[1]
            p.expect('['); cases = []
            while not p.accept(']'):
                ct = p.parse_type(); cv = p.parse_value(ct); p.expect(','); p.expect('label'); cl = p.next()[1]
                cases.append((cv, cl[1:].strip('"')))
            d.update(ty=None, vty=t, v=v, dflt=dflt[1:].strip('"'), cases=cases)
        elif op == 'ret':
            t = p.parse_type()
            d.update(ty=None, rty=t, x=None if isinstance(t, VoidT) else p.parse_value(t))
        elif op == 'unreachable':
            d.update(ty=None)
        elif op == 'fence':
            d.update(ty=None)
        elif op == 'resume':
            t = p.parse_type(); x = p.parse_value(t); d.update(ty=None)
        elif op in ('call', 'invoke', 'tail', 'musttail', 'notail'):
            if op in ('tail', 'musttail', 'notail'):
                p.expect('call'); op = 'call'; d['op'] = 'call'
            while p.peek()[0] == 'word' and p.peek()[1] in ('fastcc', 'ccc', 'coldcc', 'nnan', 'ninf', 'nsz', 'arcp', 'contract', 'afn', 'reassoc', 'fast'): p.next()
            p.skip_param_attrs()
            rt = p.parse_type()
            if isinstance(rt, FuncT): rt_ret = rt.ret
            elif isinstance(rt, PtrT) and isinstance(rt.to, FuncT): rt_ret = rt.to.ret
            else: rt_ret = rt
            callee = p.parse_value(rt)
            p.expect('(')
            args = []
            if not p.accept(')'):
                while True:
                    at = p.parse_type(); p.skip_param_attrs()
                    if isinstance(at, OtherT) and at.n == 'metadata':
                        # metadata arg: skip tokens until , or )
                        depth = 0
                        while not (depth == 0 and p.peek()[1] in (',', ')')):
                            x = p.next()[1]
                            if x in '({': depth += 1
                            if x in ')}': depth -= 1
                        args.append((at, ('undef',)))
                    else:
                        args.append((at, p.parse_value(at)))
                    if p.accept(')'): break
                    p.expect(',')
            cattrs = set()
            normal = unwind = None
            while not p.at_end():
                k, v = p.next()
                if k == 'attr': cattrs |= self.mod.attrs.get(v, set())
                elif k == 'word' and v == 'to':
                    p.expect('label'); normal = p.next()[1][1:].strip('"'); p.expect('unwind'); p.expect('label'); unwind = p.next()[1][1:].strip('"')
                elif k == 'word': cattrs.add(v)
                elif v == '[':   # operand bundles
                    while p.next()[1] != ']': pass
            d.update(ty=rt_ret, callee=callee, args=args, cattrs=cattrs, normal=normal, unwind=unwind)
        elif op == 'landingpad':
            t = p.parse_type()
            clauses = []; cleanup = False
            while not p.at_end():
                w = p.next()[1]
                if w == 'cleanup': cleanup = True
                elif w == 'catch':
                    ct = p.parse_type(); clauses.append(('catch', p.parse_value(ct)))
                elif w == 'filter':
                    ct = p.parse_type(); clauses.append(('filter', p.parse_value(ct)))
            d.update(ty=t, clauses=clauses, cleanup=cleanup)
        elif op == 'extractvalue':
            t = p.parse_type(); x = p.parse_value(t); idx = []
            while p.accept(','): idx.append(int(p.next()[1]))
            rt = t
            for i in idx:
                r = self.mod.resolve(rt)
                rt = r.fields[i] if isinstance(r, StructT) else r.el
            d.update(ty=rt, aty=t, x=x, idx=idx)
        elif op == 'insertvalue':
            t = p.parse_type(); x = p.parse_value(t); p.expect(','); et = p.parse_type(); e = p.parse_value(et); idx = []
            while p.accept(','): idx.append(int(p.next()[1]))
            d.update(ty=t, x=x, ety=et, e=e, idx=idx)
        else:
            raise SyntaxError('unsupported instruction: ' + s)
        return d

    # ---- edges
    def edge(self, dest):
        """statements performing phi copies for edge cur->dest then goto"""
        ph = self.phis.get(dest, [])
        st = []
        if ph:
            tmps = []
            for p in ph:
                v = [x for x, l in p['inc'] if l == self.cur]
                assert v, 'no phi incoming for %s from %s in %s' % (dest, self.cur, self.f.name)
                self.tmpn += 1
                tn = 'phi_t%d' % self.tmpn
                self.decls.append('%s %s;' % (self.em.ctype(p['ty']), tn))
                st.append('%s = %s;' % (tn, self.val(p['ty'], v[0])))
                tmps.append((self.local(p['res']), tn))
            for l, t in tmps: st.append('%s = %s;' % (l, t))
        st.append('goto L_%s;' % cname('%' + dest))
        return ' '.join(st)

    def emit_instr(self, d):
        op = d['op']; em = self.em
        R = self.local(d['res']) if d.get('res') else None
        if op in ('add', 'sub', 'mul', 'udiv', 'sdiv', 'urem', 'srem', 'shl', 'lshr', 'ashr', 'and', 'or', 'xor'):
            return ['%s = %s;' % (R, em.bin_expr(op, d['ty'], self.val(d['ty'], d['a']), self.val(d['ty'], d['b'])))]
        if op == 'icmp':
            return ['%s = %s;' % (R, em.icmp_expr(d['pred'], d['oty'], self.val(d['oty'], d['a']), self.val(d['oty'], d['b'])))]
        if op in ('trunc', 'zext', 'sext', 'bitcast', 'inttoptr', 'ptrtoint', 'addrspacecast'):
            return ['%s = %s;' % (R, em.cast_expr(op, d['ft'], self.val(d['ft'], d['x']), d['ty']))]
        if op == 'freeze':
            return ['%s = %s;' % (R, self.val(d['ty'], d['x']))]
        if op == 'select':
            return ['%s = %s ? %s : %s;' % (R, self.val(IntT(1), d['c']), self.val(d['ty'], d['a']), self.val(d['ty'], d['b']))]
        if op == 'getelementptr':
            return ['%s = %s + %s;' % (R, self.val(PtrT(d['bt']), d['base']), em.gep_offset_expr(d['bt'], d['idx'], self))]
        if op == 'load':
            pe = self.val(PtrT(d['ty']), d['ptr'])
            pre = ['vf_on_read(%s, %d);' % (pe, self.mod.sizeof(d['ty']))] if self.hook('hook_loads') else []
            return pre + self.emit_load(R, d['ty'], pe)
        if op == 'store':
            pe = self.val(PtrT(d['vty']), d['ptr'])
            pre = ['vf_on_write(%s, %d);' % (pe, self.mod.sizeof(d['vty']))] if self.hook('hook_stores') else []
            return pre + self.emit_store(d['vty'], self.val(d['vty'], d['x']), pe)
        if op == 'alloca':
            size = self.mod.sizeof(d['aty'])
            if d['n'] is not None:
                assert d['n'][1][0] == 'int'; size *= d['n'][1][1]
            align = d['align'] or self.mod.alignof(d['aty'])
            buf = 'buf_' + cname(d['res'])
            self.decls.append('uint8_t %s[%d] __attribute__((aligned(%d)));' % (buf, max(size, 1), align))
            return ['%s = %s;' % (R, buf)]
        if op == 'br':
            if 'dest' in d: return [self.edge(d['dest'])]
            return ['if (%s) { %s } else { %s }' % (self.val(IntT(1), d['c']), self.edge(d['a']), self.edge(d['b']))]
        if op == 'switch':
            ls = ['switch (%s) {' % self.val(d['vty'], d['v'])]
            for cv, cl in d['cases']:
                ls.append('  case %s: { %s }' % (self.val(d['vty'], cv), self.edge(cl)))
            ls.append('  default: { %s }' % self.edge(d['dflt']))
            ls.append('}')
            return ls
        if op == 'ret':
            if d['x'] is None: return ['return;']
            return ['return %s;' % self.val(d['rty'], d['x'])]
        if op == 'unreachable':
            return ['vf_unreachable(); %s' % self.zero_ret()]
        if op == 'fence':
            return ['/* fence */;']
        if op == 'resume':
            return ['vf_exc_pending = 1; %s' % self.zero_ret()]
        if op == 'landingpad':
            # value {i8*, i32}: object and selector
            ct = em.ctype(d['ty'])
            sel = '0'
            # build selector expr: first matching catch clause
            expr = '0'
            for kind, v in reversed(d['clauses']):
                if kind == 'catch':
                    if v[0] == 'null':
                        expr = '1u'
                    else:
                        ti = self.val(PtrT(IntT(8)), v)
                        tid = em.typeid_of(v)
                        expr = '(%svf_exc_matches(%s) ? %du : %s)' % (em.prefix, ti, tid, expr)
                else:
                    raise SyntaxError('filter clause unsupported in ' + self.f.name)
            return ['vf_exc_pending = 0;', '%s = (%s){ vf_exc_obj, (uint32_t)%s };' % (R, ct, expr)]
        if op == 'extractvalue':
            e = self.val(d['aty'], d['x'])
            rt = d['aty']
            for i in d['idx']:
                r = self.mod.resolve(rt)
                if isinstance(r, StructT): e += '.f%d' % i; rt = r.fields[i]
                else: e += '.a[%d]' % i; rt = r.el
            return ['%s = %s;' % (R, e)]
        if op == 'insertvalue':
            ls = ['%s = %s;' % (R, self.val(d['ty'], d['x']))]
            e = R; rt = d['ty']
            for i in d['idx']:
                r = self.mod.resolve(rt)
                if isinstance(r, StructT): e += '.f%d' % i; rt = r.fields[i]
                else: e += '.a[%d]' % i; rt = r.el
            ls.append('%s = %s;' % (e, self.val(d['ety'], d['e'])))
            return ls
        if op in ('call', 'invoke'):
            return self.emit_call(d, R)
        raise SyntaxError(op)

    def emit_load(self, R, ty, p):
        rt = self.mod.resolve(ty)
        if isinstance(rt, IntT):
            if rt.w == 1: return ['%s = (*(uint8_t*)%s) & 1;' % (R, p)]
            if cwidth(rt.w) != rt.w:
                # odd width (i24, i40, i56 ... produced by clang for small struct copies): assemble from bytes
                n = (rt.w + 7) // 8
                ct = cint(rt.w)
                expr = ' | '.join('((%s)((uint8_t*)%s)[%d] << %d)' % (ct, p, i, 8 * i) for i in range(n))
                return ['%s = %s;' % (R, self.em.norm('(%s)' % expr, rt.w))]
            return ['%s = *(%s*)%s;' % (R, cint(rt.w), p)]
        if isinstance(rt, PtrT): return ['%s = *(uint8_t**)%s;' % (R, p)]
        if isinstance(rt, StructT):
            offs, _ = self.mod.struct_layout(rt); ls = []
            for i, ft in enumerate(rt.fields):
                ls += self.emit_load('%s.f%d' % (R, i), ft, '(%s + %d)' % (p, offs[i]))
            return ls
        if isinstance(rt, ArrT):
            es = self.mod.sizeof(rt.el); ls = []
            for i in range(rt.n): ls += self.emit_load('%s.a[%d]' % (R, i), rt.el, '(%s + %d)' % (p, i * es))
            return ls
        raise TypeError('load ' + repr(rt))

    def emit_store(self, ty, x, p):
        rt = self.mod.resolve(ty)
        if isinstance(rt, IntT):
            if cwidth(rt.w) != rt.w and rt.w != 1:
                n = (rt.w + 7) // 8
                self.tmpn += 1; t = 'st_t%d' % self.tmpn
                self.decls.append('%s %s;' % (cint(rt.w), t))
                return ['%s = %s;' % (t, x)] + ['((uint8_t*)%s)[%d] = (uint8_t)(%s >> %d);' % (p, i, t, 8 * i) for i in range(n)]
            return ['*(%s*)%s = %s;' % (cint(rt.w), p, x)]
        if isinstance(rt, PtrT): return ['*(uint8_t**)%s = %s;' % (p, x)]
        if isinstance(rt, StructT):
            offs, _ = self.mod.struct_layout(rt); ls = []
            self.tmpn += 1; t = 'st_t%d' % self.tmpn
            self.decls.append('%s %s;' % (self.em.ctype(rt), t))
            ls.append('%s = %s;' % (t, x))
            for i, ft in enumerate(rt.fields):
                ls += self.emit_store(ft, '%s.f%d' % (t, i), '(%s + %d)' % (p, offs[i]))
            return ls
        if isinstance(rt, ArrT):
            es = self.mod.sizeof(rt.el); ls = []
            self.tmpn += 1; t = 'st_t%d' % self.tmpn
            self.decls.append('%s %s;' % (self.em.ctype(rt), t))
            ls.append('%s = %s;' % (t, x))
            for i in range(rt.n): ls += self.emit_store(rt.el, '%s.a[%d]' % (t, i), '(%s + %d)' % (p, i * es))
            return ls
        raise TypeError('store ' + repr(rt))

    def emit_call(self, d, R):
        callee = d['callee']; args = d['args']; em = self.em
        A = [('0' if isinstance(t, OtherT) else self.val(t, v)) for t, v in args]
        ls = []
        post_throw_check = True
        name = callee[1] if callee[0] == 'global' else None
        base = name[1:] if name else None
        assign = (R + ' = ') if (R and not isinstance(d['ty'], VoidT)) else ''
        handled = True
        if base and base.startswith('llvm.'):
            post_throw_check = False
            if base.startswith('llvm.memcpy.') or base.startswith('llvm.memmove.') or base.startswith('llvm.memset.'):
                if self.hook('hook_stores'): ls.append('vf_on_write(%s, %s);' % (A[0], A[2]))
                if self.hook('hook_loads') and not base.startswith('llvm.memset.'): ls.append('vf_on_read(%s, %s);' % (A[1], A[2]))
            # constant-length transfers (struct copies / zero-initialisation emitted by clang) are expanded to straight-line
            # byte accesses: no loop to unwind, and the solver sees concrete offsets
            klen = args[2][1][1] if (base.startswith(('llvm.memcpy.', 'llvm.memmove.', 'llvm.memset.')) and args[2][1][0] == 'int') else None
            if klen is not None and klen <= 64:
                self.tmpn += 1; tn = self.tmpn
                if base.startswith('llvm.memset.'):
                    ls.append('{ uint8_t *md%d = %s; uint8_t mv%d = %s; %s }' % (tn, A[0], tn, A[1], ' '.join('md%d[%d] = mv%d;' % (tn, i, tn) for i in range(klen))))
                else:
                    ls.append('{ uint8_t *md%d = %s; uint8_t *ms%d = %s; %s %s }' % (tn, A[0], tn, A[1],
                              ' '.join('uint8_t mt%d_%d = ms%d[%d];' % (tn, i, tn, i) for i in range(klen)),
                              ' '.join('md%d[%d] = mt%d_%d;' % (tn, i, tn, i) for i in range(klen))))
            elif base.startswith('llvm.memcpy.'): ls.append('vf_memcpy(%s, %s, %s);' % (A[0], A[1], A[2]))
            elif base.startswith('llvm.memmove.'): ls.append('vf_memmove(%s, %s, %s);' % (A[0], A[1], A[2]))
            elif base.startswith('llvm.memset.'): ls.append('vf_memset(%s, %s, %s);' % (A[0], A[1], A[2]))
            elif base.startswith('llvm.lifetime.') or base.startswith('llvm.experimental.noalias') or base.startswith('llvm.dbg.') or base.startswith('llvm.invariant.'):
                pass
            elif base.startswith('llvm.assume'): ls.append('vf_llvm_assume(%s);' % A[0])
            elif base.startswith('llvm.expect.'): ls.append('%s%s;' % (assign, A[0]))
            elif base == 'llvm.eh.typeid.for': ls.append('%s(uint32_t)%du;' % (assign, em.typeid_of(args[0][1])))
            elif base == 'llvm.trap': ls.append('vf_unreachable(); %s' % self.zero_ret())
            elif re.match(r'llvm\.(umax|umin|smax|smin)\.i(\d+)', base):
                m = re.match(r'llvm\.(umax|umin|smax|smin)\.i(\d+)', base); w = int(m.group(2))
                a, b = A
                if m.group(1)[0] == 's': ca, cb = em.as_signed(a, w), em.as_signed(b, w)
                else: ca, cb = a, b
                cmp = '>' if m.group(1).endswith('max') else '<'
                ls.append('%s(%s %s %s) ? %s : %s;' % (assign, ca, cmp, cb, a, b))
            elif re.match(r'llvm\.ctlz\.i(\d+)', base):
                w = int(base.split('.i')[1]); ls.append('%s(%s)vf_ctlz(%s, %d);' % (assign, cint(w), A[0], w))
            elif re.match(r'llvm\.cttz\.i(\d+)', base):
                w = int(base.split('.i')[1]); ls.append('%s(%s)vf_cttz(%s, %d);' % (assign, cint(w), A[0], w))
            elif re.match(r'llvm\.(u|s)(add|sub|mul)\.with\.overflow\.i(\d+)', base):
                m = re.match(r'llvm\.(u|s)(add|sub|mul)\.with\.overflow\.i(\d+)', base); w = int(m.group(3))
                assert m.group(1) == 'u' and w <= 64, base
                sym = {'add': '+', 'sub': '-', 'mul': '*'}[m.group(2)]
                ct = em.ctype(d['ty'])
                big = 'unsigned __int128'
                ls.append('{ %s wide = (%s)%s %s (%s)%s; %s = (%s){ (%s)wide, (uint8_t)(wide != (%s)(%s)wide) }; }' % (big, big, A[0], sym, big, A[1], R, ct, cint(w), big, cint(w)))
            else:
                raise SyntaxError('intrinsic ' + base)
        elif base in ('__cxa_allocate_exception',): ls.append('%svf_cxa_allocate_exception(%s);' % (assign, A[0])); post_throw_check = False
        elif base == '__cxa_free_exception': post_throw_check = False
        elif base == '__cxa_throw':
            ls.append('vf_cxa_throw(%s, %s);' % (A[0], A[1]))
        elif base == '__cxa_rethrow':
            ls.append('vf_cxa_rethrow();')
        elif base == '__cxa_begin_catch': ls.append('%svf_cxa_begin_catch(%s);' % (assign, A[0])); post_throw_check = False
        elif base == '__cxa_end_catch': ls.append('vf_cxa_end_catch();'); post_throw_check = False
        elif base == '__clang_call_terminate' or base == '_ZSt9terminatev':
            ls.append('vf_terminate(); %s' % self.zero_ret()); post_throw_check = False
        elif base == '__assert_fail':
            ls.append('vf_assert_fail(%s); %s' % (A[2], self.zero_ret())); post_throw_check = False
        elif base in EXT_MAP:
            ls.append('%s%s(%s);' % (assign, EXT_MAP[base], ', '.join(A)))
            post_throw_check = base not in NOTHROW_EXT
        else:
            handled = False
        if not handled:
            if name:
                fn = em.fname(name)
                if name not in self.mod.funcs: em.used_ext.add(name)
                ls.append('%s%s(%s);' % (assign, fn, ', '.join(A)))
            else:
                # indirect call
                fty = '%s (*)(%s)' % (em.ctype(d['ty']), ', '.join(em.ctype(t) for t, _ in args) or 'void')
                ls.append('%s((%s)%s)(%s);' % (assign, fty, self.val(PtrT(IntT(8)), callee), ', '.join(A)))
        may_throw = post_throw_check and self.may_throw_callee(callee, d['cattrs'])
        if d['op'] == 'invoke':
            if may_throw:
                ls.append('if (vf_exc_pending) { %s } else { %s }' % (self.edge(d['unwind']), self.edge(d['normal'])))
            else:
                ls.append(self.edge(d['normal']))
        else:
            if may_throw:
                ls.append('if (vf_exc_pending) %s' % self.zero_ret())
        return ls

NOTHROW_EXT = {'__cxa_guard_acquire', '__cxa_guard_release', '__cxa_guard_abort', '__cxa_atexit', '_ZNSt9exceptionD2Ev', '_ZNSt9exceptionD1Ev', '_ZNSt14overflow_errorD1Ev', '_ZNSt12out_of_rangeD1Ev', '_ZNSt13runtime_errorD2Ev', '_ZNSt11logic_errorD2Ev', '_ZNSt9bad_allocD1Ev', '_ZNSt14overflow_errorC1EPKc', '_ZNSt12out_of_rangeC1EPKc', '_ZNSt12length_errorC1EPKc',
               '_ZSt18_Rb_tree_incrementPKSt18_Rb_tree_node_base', '_ZSt18_Rb_tree_decrementPSt18_Rb_tree_node_base', '_ZSt18_Rb_tree_incrementPSt18_Rb_tree_node_base', '_ZSt18_Rb_tree_decrementPKSt18_Rb_tree_node_base', '_ZSt29_Rb_tree_insert_and_rebalancebPSt18_Rb_tree_node_baseS0_RS_', '_ZSt28_Rb_tree_rebalance_for_erasePSt18_Rb_tree_node_baseRS_',
               'malloc', 'free', 'realloc', 'memcpy', 'memmove', 'memset', 'memcmp', 'bcmp', 'strlen', '_ZdlPv', '_ZdlPvm', '_ZdaPv',
               '_ZnwmRKSt9nothrow_t', 'vf_nondet_u8', 'vf_nondet_u16', 'vf_nondet_u32', 'vf_nondet_u64', 'vf_assume', 'vf_assert',
               'vf_note', 'vf_reach', 'vf_on_write', 'vf_on_read', 'vf_havoc', 'vf_heap_reset', 'vf_obs'}
EXT_MAP = {'__cxa_guard_acquire': 'vf_guard_acquire', '__cxa_guard_release': 'vf_guard_release', '__cxa_guard_abort': 'vf_nop1', '__cxa_atexit': 'vf_atexit',
           '_ZNSt9exceptionD2Ev': 'vf_nop1', '_ZNSt9exceptionD1Ev': 'vf_nop1', '_ZNSt14overflow_errorD1Ev': 'vf_nop1', '_ZNSt12out_of_rangeD1Ev': 'vf_nop1', '_ZNSt13runtime_errorD2Ev': 'vf_nop1', '_ZNSt11logic_errorD2Ev': 'vf_nop1', '_ZNSt9bad_allocD1Ev': 'vf_nop1',
           '_ZNSt14overflow_errorC1EPKc': 'vf_nop2', '_ZNSt12out_of_rangeC1EPKc': 'vf_nop2', '_ZNSt12length_errorC1EPKc': 'vf_nop2', '_ZNSt9bad_allocC1Ev': 'vf_nop1',
           '_ZSt18_Rb_tree_incrementPKSt18_Rb_tree_node_base': 'vf_rb_inc', '_ZSt18_Rb_tree_decrementPSt18_Rb_tree_node_base': 'vf_rb_dec',
           '_ZSt18_Rb_tree_incrementPSt18_Rb_tree_node_base': 'vf_rb_inc', '_ZSt18_Rb_tree_decrementPKSt18_Rb_tree_node_base': 'vf_rb_dec',
           '_ZSt29_Rb_tree_insert_and_rebalancebPSt18_Rb_tree_node_baseS0_RS_': 'vf_rb_insert', '_ZSt28_Rb_tree_rebalance_for_erasePSt18_Rb_tree_node_baseRS_': 'vf_rb_erase',
           '_ZdlPv': 'vf_delete', '_ZdlPvm': 'vf_delete_sized', '_Znwm': 'vf_new', '_ZnwmRKSt9nothrow_t': 'vf_new_nothrow',
           '_Znam': 'vf_new', '_ZdaPv': 'vf_delete',
           'malloc': 'vf_malloc', 'free': 'vf_free_', 'realloc': 'vf_realloc_',
           'memcpy': 'vf_memcpy_r', 'memmove': 'vf_memmove_r', 'memset': 'vf_memset_r', 'memcmp': 'vf_memcmp', 'bcmp': 'vf_memcmp'}

def main():
    import argparse
    ap = argparse.ArgumentParser()
    ap.add_argument('ll'); ap.add_argument('-o', required=True)
    ap.add_argument('--root', action='append', default=[])
    ap.add_argument('--prefix', default='')
    ap.add_argument('--no-include', action='store_true')
    ap.add_argument('--hook-stores', action='store_true')
    ap.add_argument('--hook-loads', action='store_true')
    ap.add_argument('--info', help='write JSON: per-root reachable functions, externs, mutable globals')
    a = ap.parse_args()
    mod = parse_module(open(a.ll).read())
    em = Emitter(mod, a.prefix, dict(hook_stores=a.hook_stores, hook_loads=a.hook_loads))
    roots = ['@' + r for r in a.root] if a.root else None
    body = em.emit_module(roots)
    with open(a.o, 'w') as f:
        if not a.no_include: f.write('#include "vf_rt.h"\n')
        f.write(body)
    if a.info:
        info = {'functions': len(em.funcs_emitted), 'externs': sorted(n[1:] for n in em.used_ext), 'unmodelled_externs': em.unmodelled,
                'mutable_globals': sorted(n[1:] for n in em.mutable_globals), 'roots': {}}
        ninstr = {n: sum(len(ins) for _, ins in mod.funcs[n].blocks) for n in mod.funcs}
        for r in (roots or []):
            rs = em.reach([r])
            info['roots'][r[1:]] = {'functions': sorted(n[1:] for n in rs), 'ir_instructions': sum(ninstr[n] for n in rs)}
        json.dump(info, open(a.info, 'w'))

if __name__ == '__main__':
    main()
