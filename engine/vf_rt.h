/* Runtime prelude for ir2c-generated C.
 *   default     : CBMC mode (nondet_*, __CPROVER_assume/assert, static arena heap)
 *   -DVF_NATIVE : native mode (values from a replay stream / PRNG, real malloc) used for translator validation
 * Every function here is part of the trusted environment model and is listed in the evidence ("stubs").
 */
#include <stdint.h>
#include <stddef.h>
#include <string.h>
#include <stdlib.h>

#ifdef VF_NATIVE
#include <stdio.h>
extern uint64_t vf_native_nondet(int w);
static inline uint8_t vf_nondet_u8(void) { return (uint8_t)vf_native_nondet(8); }
static inline uint16_t vf_nondet_u16(void) { return (uint16_t)vf_native_nondet(16); }
static inline uint32_t vf_nondet_u32(void) { return (uint32_t)vf_native_nondet(32); }
static inline uint64_t vf_nondet_u64(void) { return vf_native_nondet(64); }
extern void vf_native_assume_fail(void);
extern void vf_native_assert_fail(int id);
extern void vf_native_reach(int id);
static inline void vf_assume(uint8_t c) { if (!c) vf_native_assume_fail(); }
static inline void vf_assert(uint8_t c, uint32_t id) { if (!c) vf_native_assert_fail((int)id); }
static inline void vf_reach(uint32_t id) { vf_native_reach((int)id); }
extern void vf_native_obs(uint32_t v);
static inline void vf_obs(uint32_t v) { vf_native_obs(v); }
static inline uint64_t vf_undef(void) { return 0; }
#define VF_FAIL(code, msg) do { fprintf(stderr, "VF_FAIL %s\n", msg); vf_native_assert_fail(-(code)); } while (0)
#else
uint8_t nondet_u8(void); uint16_t nondet_u16(void); uint32_t nondet_u32(void); uint64_t nondet_u64(void);
uint64_t nondet_undef64(void);
#ifdef VF_MITER
/* transcript miter (C16): configuration A draws nondeterministic values and logs them, configuration B replays the log;
   both append their observations to a transcript; the transcripts must be identical for every input. */
static int vf_phase; static uint64_t vf_log[48]; static int vf_logn, vf_logi; static uint8_t vf_draw_mismatch;
static uint32_t vf_trA[96], vf_trB[96]; static int vf_tnA, vf_tnB; static uint8_t vf_tr_overflow;
static inline uint64_t vf_miter_draw(uint64_t fresh) {
  if (vf_phase == 0) { if (vf_logn < 48) vf_log[vf_logn++] = fresh; else vf_tr_overflow = 1; return fresh; }
  if (vf_logi < vf_logn) return vf_log[vf_logi++];
  vf_draw_mismatch = 1; return 0;
}
static inline uint8_t vf_nondet_u8(void) { return (uint8_t)vf_miter_draw(nondet_u8()); }
static inline uint16_t vf_nondet_u16(void) { return (uint16_t)vf_miter_draw(nondet_u16()); }
static inline uint32_t vf_nondet_u32(void) { return (uint32_t)vf_miter_draw(nondet_u32()); }
static inline uint64_t vf_nondet_u64(void) { return vf_miter_draw(nondet_u64()); }
static inline void vf_obs(uint32_t v) {
  if (vf_phase == 0) { if (vf_tnA < 96) vf_trA[vf_tnA++] = v; else vf_tr_overflow = 1; }
  else { if (vf_tnB < 96) vf_trB[vf_tnB++] = v; else vf_tr_overflow = 1; }
}
#else
static inline uint8_t vf_nondet_u8(void) { return nondet_u8(); }
static inline uint16_t vf_nondet_u16(void) { return nondet_u16(); }
static inline uint32_t vf_nondet_u32(void) { return nondet_u32(); }
static inline uint64_t vf_nondet_u64(void) { return nondet_u64(); }
static inline void vf_obs(uint32_t v) { (void)v; }
#endif
static inline void vf_assume(uint8_t c) { __CPROVER_assume(c); }
#define vf_assert(c, id) __CPROVER_assert((c), "vf_assert " #id)
#define vf_reach(id) __CPROVER_assert(0, "vf_reach " #id)
static inline uint64_t vf_undef(void) { return nondet_undef64(); }
#define VF_FAIL(code, msg) do { __CPROVER_assert(0, "vf_fail " #code " " msg); __CPROVER_assume(0); } while (0)
#endif

/* failure codes of the environment model (negative assert ids in native mode) */
#define VF_E_UNREACHABLE 1   /* llvm 'unreachable' executed: undefined behaviour in the source */
#define VF_E_TERMINATE   2   /* std::terminate (exception escaping noexcept) */
#define VF_E_LIBASSERT   3   /* library assert() fired */
#define VF_E_ASSUME      4   /* llvm.assume violated */
#define VF_E_BOUND       5   /* environment bound hit (arena / exception pool): inconclusive, not a violation */
#define VF_E_HEAP        6   /* free/realloc of a pointer that is not a live block */
#define VF_E_ESCAPE      7   /* exception escaped the harness entry */

static inline void vf_note(uint32_t tag, uint64_t v) { (void)tag; (void)v; }
/* make n bytes at p arbitrary (CBMC) / a fixed pseudo-random pattern (native, identical on both native sides) */
#ifdef VF_NATIVE
static inline void vf_havoc(uint8_t *p, uint64_t n) { for (uint64_t i = 0; i < n; ++i) p[i] = (uint8_t)(i * 37u + 11u); }
#else
static inline void vf_havoc(uint8_t *p, uint64_t n) { __CPROVER_havoc_slice(p, n); }
#endif

/* ---- exceptions: pending-flag protocol */
static uint8_t vf_exc_pending;
static uint8_t *vf_exc_obj;
static uint8_t *vf_exc_ti;
static uint8_t *vf_caught_obj[4];
static uint8_t *vf_caught_ti[4];
static int vf_caught_n;
static uint8_t vf_exc_pool[4][64] __attribute__((aligned(16)));
static int vf_exc_pool_n;

static inline uint8_t *vf_cxa_allocate_exception(uint64_t n) {
  if (n > 64 || vf_exc_pool_n >= 4) VF_FAIL(5, "exception pool exhausted (bound)");
  return vf_exc_pool[vf_exc_pool_n++];
}
static inline void vf_cxa_throw(uint8_t *obj, uint8_t *ti) { vf_exc_obj = obj; vf_exc_ti = ti; vf_exc_pending = 1; }
static inline uint8_t *vf_cxa_begin_catch(uint8_t *obj) {
  if (vf_caught_n >= 4) VF_FAIL(5, "catch nesting (bound)");
  vf_caught_obj[vf_caught_n] = vf_exc_obj; vf_caught_ti[vf_caught_n] = vf_exc_ti; vf_caught_n++;
  vf_exc_pending = 0;
  return obj;
}
static inline void vf_cxa_end_catch(void) { if (vf_caught_n > 0) vf_caught_n--; }
static inline void vf_cxa_rethrow(void) {
  if (vf_caught_n == 0) VF_FAIL(2, "rethrow without exception");
  vf_exc_obj = vf_caught_obj[vf_caught_n - 1]; vf_exc_ti = vf_caught_ti[vf_caught_n - 1]; vf_exc_pending = 1;
}

static inline void vf_unreachable(void) { VF_FAIL(1, "llvm unreachable reached (undefined behaviour in source)"); }
static inline void vf_terminate(void) { VF_FAIL(2, "std::terminate reached"); }
static inline void vf_assert_fail(uint32_t line) { (void)line; VF_FAIL(3, "library assert() failed"); }
static inline void vf_llvm_assume(uint8_t c) { if (!c) VF_FAIL(4, "llvm.assume violated"); }

/* ---- mem* as byte loops (CBMC's builtin memmove on interior byte pointers gave a spurious failure) */
static inline void vf_memcpy(uint8_t *d, uint8_t *s, uint64_t n) { for (uint64_t i = 0; i < n; ++i) d[i] = s[i]; }
static inline void vf_memmove(uint8_t *d, uint8_t *s, uint64_t n) {
#ifdef VF_NATIVE
  if (n) memmove(d, s, n);
#else
  if (d == s) return;
  /* direction decided on offsets within the same object; different objects never overlap */
  if (__CPROVER_POINTER_OBJECT(d) != __CPROVER_POINTER_OBJECT(s) || __CPROVER_POINTER_OFFSET(d) <= __CPROVER_POINTER_OFFSET(s)) { for (uint64_t i = 0; i < n; ++i) d[i] = s[i]; }
  else { for (uint64_t i = n; i > 0; --i) d[i - 1] = s[i - 1]; }
#endif
}
static inline void vf_memset(uint8_t *d, uint8_t c, uint64_t n) { for (uint64_t i = 0; i < n; ++i) d[i] = c; }
static inline uint8_t *vf_memcpy_r(uint8_t *d, uint8_t *s, uint64_t n) { vf_memcpy(d, s, n); return d; }
static inline uint8_t *vf_memmove_r(uint8_t *d, uint8_t *s, uint64_t n) { vf_memmove(d, s, n); return d; }
static inline uint8_t *vf_memset_r(uint8_t *d, uint32_t c, uint64_t n) { vf_memset(d, (uint8_t)c, n); return d; }
static inline uint32_t vf_memcmp(uint8_t *a, uint8_t *b, uint64_t n) {
  for (uint64_t i = 0; i < n; ++i) if (a[i] != b[i]) return a[i] < b[i] ? (uint32_t)-1 : 1u;
  return 0;
}

/* ---- heap */
#ifdef VF_NATIVE
static inline uint8_t *vf_malloc(uint64_t n) { return (uint8_t *)malloc(n ? n : 1); }
static inline void vf_free_(uint8_t *p) { free(p); }
static inline uint8_t *vf_realloc_(uint8_t *p, uint64_t n) { return (uint8_t *)realloc(p, n ? n : 1); }
static inline void vf_heap_reset(void) {}
#else
/* static arena: K separate objects of SZ bytes, first-free. A block of n bytes is placed at the END of its object
 * so that any access past the requested length leaves the object and is caught by CBMC's pointer checks.
 * Freed blocks are havocked: a stale read returns arbitrary bytes. */
#ifndef VF_ARENA_K
#define VF_ARENA_K 4
#endif
#ifndef VF_ARENA_SZ
#define VF_ARENA_SZ 16
#endif
#if VF_ARENA_K > 8
#error "VF_ARENA_K max 8"
#endif
static uint8_t vf_arena0[VF_ARENA_SZ] __attribute__((aligned(16)));
static uint8_t vf_arena1[VF_ARENA_SZ] __attribute__((aligned(16)));
static uint8_t vf_arena2[VF_ARENA_SZ] __attribute__((aligned(16)));
static uint8_t vf_arena3[VF_ARENA_SZ] __attribute__((aligned(16)));
static uint8_t vf_arena4[VF_ARENA_SZ] __attribute__((aligned(16)));
static uint8_t vf_arena5[VF_ARENA_SZ] __attribute__((aligned(16)));
static uint8_t vf_arena6[VF_ARENA_SZ] __attribute__((aligned(16)));
static uint8_t vf_arena7[VF_ARENA_SZ] __attribute__((aligned(16)));
static uint8_t vf_arena_used[8];
static uint64_t vf_arena_len[8];
static uint8_t *vf_arena_ptr[8];
static inline uint8_t *vf_arena_base(int k) {
  switch (k) { case 0: return vf_arena0; case 1: return vf_arena1; case 2: return vf_arena2; case 3: return vf_arena3;
               case 4: return vf_arena4; case 5: return vf_arena5; case 6: return vf_arena6; default: return vf_arena7; }
}
static inline uint8_t *vf_malloc(uint64_t n) {
  if (n > VF_ARENA_SZ) VF_FAIL(5, "arena block too small (bound)");
  for (int k = 0; k < VF_ARENA_K; ++k) if (!vf_arena_used[k]) {
    vf_arena_used[k] = 1; vf_arena_len[k] = n;
#ifdef VF_ARENA_TAIL
    vf_arena_ptr[k] = vf_arena_base(k) + (VF_ARENA_SZ - n);
#else
    vf_arena_ptr[k] = vf_arena_base(k);
#endif
    return vf_arena_ptr[k];
  }
  VF_FAIL(5, "arena exhausted (bound)"); return 0;
}
static inline void vf_free_(uint8_t *p) {
  if (!p) return;
  for (int k = 0; k < VF_ARENA_K; ++k) if (vf_arena_used[k] && p == vf_arena_ptr[k]) {
    vf_arena_used[k] = 0;
    __CPROVER_havoc_slice(vf_arena_base(k), VF_ARENA_SZ);
    return;
  }
  VF_FAIL(6, "free of a pointer that is not a live block");
}
static inline uint8_t *vf_realloc_(uint8_t *p, uint64_t n) {
  uint8_t *q = vf_malloc(n);
  if (p) {
    uint64_t old = 0; int found = 0;
    for (int k = 0; k < VF_ARENA_K; ++k) if (vf_arena_used[k] && p == vf_arena_ptr[k]) { old = vf_arena_len[k]; found = 1; }
    if (!found) VF_FAIL(6, "realloc of a pointer that is not a live block");
    uint64_t m = old < n ? old : n;
    for (uint64_t i = 0; i < m; ++i) q[i] = p[i];
    vf_free_(p);
  }
  return q;
}
static inline void vf_heap_reset(void) { for (int k = 0; k < 8; ++k) vf_arena_used[k] = 0; }
#endif
static inline uint8_t *vf_new(uint64_t n) { return vf_malloc(n); }
static inline uint8_t *vf_new_nothrow(uint64_t n, uint8_t *tag) { (void)tag; return vf_malloc(n); }
static inline void vf_delete(uint8_t *p) { vf_free_(p); }
static inline void vf_delete_sized(uint8_t *p, uint64_t n) { (void)n; vf_free_(p); }
static inline uint64_t vf_ctlz(uint64_t x, int w) { int n = 0; for (int i = w - 1; i >= 0 && !((x >> i) & 1); --i) n++; return n; }
static inline uint64_t vf_cttz(uint64_t x, int w) { int n = 0; for (int i = 0; i < w && !((x >> i) & 1); ++i) n++; return n; }

/* ---- environment stub for libstdc++.so's out-of-line red-black tree primitives (no source/IR offline):
   plain BST link/unlink with the same header bookkeeping; balance (colour) is not modelled. */
typedef struct vf_rbn { uint32_t color; struct vf_rbn *parent, *left, *right; } vf_rbn;
static inline uint8_t *vf_rb_inc(uint8_t *xp) {
  vf_rbn *x = (vf_rbn *)xp;
  if (x->right) { x = x->right; while (x->left) x = x->left; }
  else { vf_rbn *y = x->parent; while (x == y->right) { x = y; y = y->parent; } if (x->right != y) x = y; }
  return (uint8_t *)x;
}
static inline uint8_t *vf_rb_dec(uint8_t *xp) {
  vf_rbn *x = (vf_rbn *)xp;
  if (x->color == 0 && x->parent->parent == x) x = x->right;   /* header */
  else if (x->left) { vf_rbn *y = x->left; while (y->right) y = y->right; x = y; }
  else { vf_rbn *y = x->parent; while (x == y->left) { x = y; y = y->parent; } x = y; }
  return (uint8_t *)x;
}
static inline void vf_rb_insert(uint8_t left, uint8_t *xp, uint8_t *pp, uint8_t *hp) {
  vf_rbn *x = (vf_rbn *)xp, *p = (vf_rbn *)pp, *h = (vf_rbn *)hp;
  x->parent = p; x->left = 0; x->right = 0; x->color = 1;
  if (left) { p->left = x; if (p == h) { h->parent = x; h->right = x; } else if (p == h->left) h->left = x; }
  else { p->right = x; if (p == h->right) h->right = x; }
}
static inline uint8_t *vf_rb_erase(uint8_t *zp, uint8_t *hp) {
  vf_rbn *z = (vf_rbn *)zp, *h = (vf_rbn *)hp;
  vf_rbn *y = z, *x = 0;
  if (y->left == 0) x = y->right; else if (y->right == 0) x = y->left; else { y = y->right; while (y->left) y = y->left; x = y->right; }
  if (y != z) {
    z->left->parent = y; y->left = z->left;
    if (y != z->right) { if (x) x->parent = y->parent; y->parent->left = x; y->right = z->right; z->right->parent = y; }
    if (h->parent == z) h->parent = y; else if (z->parent->left == z) z->parent->left = y; else z->parent->right = y;
    y->parent = z->parent; y = z;
  } else {
    if (x) x->parent = y->parent;
    if (h->parent == z) h->parent = x; else if (z->parent->left == z) z->parent->left = x; else z->parent->right = x;
    if (h->left == z) { if (z->right == 0) h->left = z->parent; else { vf_rbn *m = x; while (m->left) m = m->left; h->left = m; } }
    if (h->right == z) { if (z->left == 0) h->right = z->parent; else { vf_rbn *m = x; while (m->right) m = m->right; h->right = m; } }
  }
  return (uint8_t *)y;
}

/* function-local statics: single-threaded guard protocol; destructors registered for exit are not run */
static inline uint32_t vf_guard_acquire(uint8_t *g) { return *g == 0; }
static inline void vf_guard_release(uint8_t *g) { *g = 1; }
static inline uint32_t vf_atexit(uint8_t *f, uint8_t *a, uint8_t *d) { (void)f; (void)a; (void)d; return 0; }
static inline void vf_nop2(uint8_t *a, uint8_t *b) { (void)a; (void)b; }
static inline void vf_nop1(uint8_t *a) { (void)a; }
