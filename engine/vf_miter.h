/* miter glue (C16): included after vf_rt.h when two prefixed translations of the same harness share one C file */
static inline void vf_miter_begin(void) { vf_phase = 0; vf_logn = 0; vf_tnA = 0; vf_tnB = 0; }
static inline void vf_miter_switch(void) {
  vf_phase = 1; vf_logi = 0;
  vf_heap_reset();                       /* the second run starts from a fresh heap */
  vf_exc_pending = 0; vf_caught_n = 0; vf_exc_pool_n = 0;
}
static inline void vf_miter_end(void) {
  __CPROVER_assert(!vf_tr_overflow, "vf_fail 5 transcript or draw log too small (bound)");
  __CPROVER_assert(!vf_draw_mismatch && vf_logi == vf_logn, "vf_assert ((uint32_t)16001ULL) same number of nondeterministic draws");
  __CPROVER_assert(vf_tnA == vf_tnB, "vf_assert ((uint32_t)16002ULL) transcript length");
  for (int i = 0; i < 96; ++i) { if (i >= vf_tnA || i >= vf_tnB) break; __CPROVER_assert(vf_trA[i] == vf_trB[i], "vf_assert ((uint32_t)16003ULL) transcript entry"); }
}
