#!/usr/bin/env python3
"""Driver: build (clang -> IR -> ir2c -> C), validate the translation natively, decide every query with CBMC,
replay counterexamples against the real headers, write evidence.  See /verif/DESIGN.md section 2."""
import concurrent.futures as cf
import hashlib, json, os, re, resource, shutil, subprocess, sys, time, threading

VERIF = os.path.dirname(os.path.dirname(os.path.abspath(__file__)))
ENGINE = os.path.join(VERIF, 'engine')
HARNESS = os.path.join(VERIF, 'harness')
REPO = os.environ.get('VERIF_REPO', '/repo')
WORK = os.path.join(VERIF, '.work')
STORE = os.path.join(WORK, 'store')
NCPU = int(os.environ.get('VERIF_JOBS', '0')) or (os.cpu_count() or 4)

CLANG = 'clang++-14'
CLANG_FLAGS = ['-fno-vectorize', '-fno-slp-vectorize', '-fno-unroll-loops', '-fno-exceptions-DUMMY']
# sink-common=false: SimplifyCFG must not merge two vf_assert calls of different branches into one call with a phi'd id
CLANG_FLAGS = ['-fno-vectorize', '-fno-slp-vectorize', '-fno-unroll-loops', '-Wno-everything', '-mllvm', '-simplifycfg-sink-common=false']

_print_lock = threading.Lock()
def log(*a):
    with _print_lock:
        print(*a, file=sys.stderr, flush=True)

def sha(*parts):
    h = hashlib.sha256()
    for p in parts:
        h.update(p if isinstance(p, bytes) else str(p).encode())
        h.update(b'\0')
    return h.hexdigest()

def tree_hash(root, exts=None):
    h = hashlib.sha256()
    for d, ds, fs in sorted(os.walk(root)):
        ds.sort()
        if '.work' in d or '__pycache__' in d: continue
        for f in sorted(fs):
            if exts and not f.endswith(exts): continue
            p = os.path.join(d, f)
            h.update(os.path.relpath(p, root).encode()); h.update(b'\0')
            with open(p, 'rb') as fh: h.update(fh.read())
            h.update(b'\0')
    return h.hexdigest()

class Query:
    """One solver query = one harness entry in one configuration."""
    def __init__(self, name, src, entry, defs=None, std='c++17', opt='-O1', unwind=12, unwindset=None, arena=(4, 64),
                 timeout=300, mem_gb=4, object_bits=None, ndebug=True, nonstd=True, hooks=(), note='', expect_reach=None,
                 symbolic='', bounds=None, miter=None, extra_cbmc=(), optional_reach=(), unwind_cap=300):
        self.name, self.src, self.entry = name, src, entry
        self.defs = dict(defs or {})
        self.std, self.opt, self.unwind = std, opt, unwind
        self.unwindset = dict(unwindset or {})
        self.arena, self.timeout, self.mem_gb = arena, timeout, mem_gb
        self.object_bits, self.ndebug, self.nonstd = object_bits, ndebug, nonstd
        self.hooks = tuple(hooks)
        self.note = note
        self.expect_reach = expect_reach
        self.symbolic = symbolic
        self.bounds = bounds or {}
        self.miter = miter     # (std2/opt2/... second configuration) for C16
        self.extra_cbmc = tuple(extra_cbmc)
        self.optional_reach = set(optional_reach)   # markers that are legitimately unreachable in this partition
        self.unwind_cap = unwind_cap                  # loop bounds are raised automatically up to this cap
    def build_key(self):
        return (self.src, tuple(sorted(self.defs.items())), self.std, self.opt, self.ndebug, self.nonstd, self.hooks,
                json.dumps(self.miter, sort_keys=True) if self.miter else None)
    def ident(self):
        return json.dumps([self.name, self.src, self.entry, sorted(self.defs.items()), self.std, self.opt, self.unwind,
                           sorted(self.unwindset.items()), self.arena, self.object_bits, self.ndebug, self.nonstd,
                           self.hooks, self.miter, self.extra_cbmc], sort_keys=True)

def run(cmd, timeout=None, cwd=None, env=None, mem_gb=None, stdout=subprocess.PIPE, stderr=subprocess.PIPE):
    def pre():
        os.setsid()
        if mem_gb:
            lim = int(mem_gb * (1 << 30))
            resource.setrlimit(resource.RLIMIT_AS, (lim, lim))
    t0 = time.time()
    p = subprocess.Popen(cmd, cwd=cwd, env=env, stdout=stdout, stderr=stderr, preexec_fn=pre)
    try:
        out, err = p.communicate(timeout=timeout)
        to = False
    except subprocess.TimeoutExpired:
        try: os.killpg(p.pid, 9)
        except Exception: pass
        out, err = p.communicate()
        to = True
    ru = resource.getrusage(resource.RUSAGE_CHILDREN)
    return dict(rc=p.returncode, out=(out or b'').decode(errors='replace'), err=(err or b'').decode(errors='replace'),
                timeout=to, wall=time.time() - t0)

class BuildError(Exception):
    pass

class Build:
    """Everything derived from one (harness source, configuration): IR, generated C, two native binaries."""
    def __init__(self, key, q, entries, kf_defs):
        self.key = key
        self.src, self.defs, self.std, self.opt = q.src, dict(q.defs), q.std, q.opt
        self.ndebug, self.nonstd, self.hooks, self.miter = q.ndebug, q.nonstd, q.hooks, q.miter
        self.entries = sorted(entries)
        self.defs.update(kf_defs)
        self.dir = os.path.join(WORK, 'b_' + sha(repr(key), repr(sorted(kf_defs.items())), os.getpid())[:16])
        self.info = {}
        self.diff = {}
        self.lock = threading.Lock()
        self.done = False
        self.error = None

    def cxxflags(self, std=None, opt=None, ndebug=None, nonstd=None):
        fl = ['-std=' + (std or self.std), (opt or self.opt), '-I' + os.path.join(REPO, 'include'), '-I' + HARNESS]
        if (self.ndebug if ndebug is None else ndebug): fl.append('-DNDEBUG')
        if (self.nonstd if nonstd is None else nonstd): fl.append('-DAMC_NONSTD_FEATURES')
        for k, v in sorted(self.defs.items()):
            fl.append('-D%s' % k if v is None or v == '' else '-D%s=%s' % (k, v))
        return fl

    def lower(self, tag, prefix='', **cfg):
        ll = os.path.join(self.dir, 'h%s.ll' % tag)
        r = run([CLANG] + self.cxxflags(**cfg) + CLANG_FLAGS + ['-S', '-emit-llvm', os.path.join(HARNESS, self.src), '-o', ll], timeout=300)
        if r['rc'] != 0:
            raise BuildError('clang failed for %s %s:\n%s' % (self.src, self.defs, r['err'][-3000:]))
        c = os.path.join(self.dir, 'gen%s.c' % tag)
        info = os.path.join(self.dir, 'info%s.json' % tag)
        cmd = [sys.executable, os.path.join(ENGINE, 'ir2c.py'), ll, '-o', c, '--info', info]
        for e in self.entries: cmd += ['--root', e]
        if prefix: cmd += ['--prefix', prefix, '--no-include']
        if 'stores' in self.hooks: cmd.append('--hook-stores')
        if 'loads' in self.hooks: cmd.append('--hook-loads')
        r = run(cmd, timeout=300)
        if r['rc'] != 0:
            raise BuildError('ir2c failed for %s %s:\n%s' % (self.src, self.defs, r['err'][-3000:]))
        return c, json.load(open(info))

    def build(self, validate_seeds, seed):
        os.makedirs(self.dir, exist_ok=True)
        t0 = time.time()
        if self.miter:
            ca, ia = self.lower('A', prefix='A_')
            cb, ib = self.lower('B', prefix='B_', **self.miter)
            self.c = os.path.join(self.dir, 'gen.c')
            with open(self.c, 'w') as f:
                f.write('#include "vf_rt.h"\n#include "vf_miter.h"\n')
                f.write(open(ca).read()); f.write('\n'); f.write(open(cb).read()); f.write('\n')
                for e in self.entries:
                    f.write('void vf_main_%s(void) { vf_miter_begin(); A_vf_init_globals(); A_%s(); if (vf_exc_pending) VF_FAIL(7, "exception escaped the harness entry"); '
                            'vf_miter_switch(); B_vf_init_globals(); B_%s(); if (vf_exc_pending) VF_FAIL(7, "exception escaped the harness entry"); vf_miter_end(); }\n' % (e, e, e))
            self.info = ia
            self.info['miter_second'] = ib
            # two native builds (configuration A and B) for replaying a reported divergence: same input stream, transcripts compared
            ent = os.path.join(self.dir, 'entries.c')
            with open(ent, 'w') as f:
                for e in self.entries: f.write('extern void %s(void);\n' % e)
                f.write('struct vf_entry { const char *name; void (*fn)(void); };\nstruct vf_entry vf_entries[] = {')
                f.write(', '.join('{"%s", %s}' % (e, e) for e in self.entries)); f.write(', {0, 0}};\n')
            run(['gcc', '-c', '-O1', '-DCXX_SIDE', os.path.join(ENGINE, 'vf_native.c'), '-o', os.path.join(self.dir, 'nat_cxx.o')], timeout=120)
            run(['gcc', '-c', '-O1', ent, '-o', os.path.join(self.dir, 'entries.o')], timeout=120)
            self.bin_A = os.path.join(self.dir, 'native_A'); self.bin_B = os.path.join(self.dir, 'native_B')
            for binp, cfg in ((self.bin_A, {}), (self.bin_B, self.miter)):
                r = run(['g++'] + self.cxxflags(**cfg) + ['-w', os.path.join(HARNESS, self.src), os.path.join(self.dir, 'nat_cxx.o'), os.path.join(self.dir, 'entries.o'), '-o', binp], timeout=600)
                if r['rc'] != 0: raise BuildError('native miter build failed: ' + r['err'][-2000:])
            self.bin_cxx = self.bin_c = None
            self.diff = dict(streams=0, agree=0, passes=0, n_mismatch=0, n_native_defect=0, mismatches=[], native_defects=[], reach={})
            # sanity: both native configurations produce the same transcript on pseudo-random streams
            agree = 0
            for e in self.entries:
                for i in range(validate_seeds):
                    sd = seed * 1000003 + i * 7919 + 1
                    ra = run([self.bin_A, e, str(sd)], timeout=20); rb = run([self.bin_B, e, str(sd)], timeout=20)
                    if ra['out'] == rb['out']: agree += 1
                    else: self.diff['native_defects'].append((e, sd, 'transcripts differ natively'))
            self.diff['streams'] = validate_seeds * len(self.entries); self.diff['agree'] = agree
            self.diff['n_native_defect'] = len(self.diff['native_defects'])
            self.t_build = time.time() - t0
            self.done = True
            return
        self.c, self.info = self.lower('')
        with open(self.c, 'a') as f:
            f.write('\n')
            for e in self.entries:
                f.write('void vf_main_%s(void) { vf_init_globals(); %s(); if (vf_exc_pending) VF_FAIL(7, "exception escaped the harness entry"); }\n' % (e, e))
        ent = os.path.join(self.dir, 'entries.c')
        with open(ent, 'w') as f:
            for e in self.entries: f.write('extern void %s(void);\n' % e)
            f.write('struct vf_entry { const char *name; void (*fn)(void); };\nstruct vf_entry vf_entries[] = {')
            f.write(', '.join('{"%s", %s}' % (e, e) for e in self.entries))
            f.write(', {0, 0}};\n')
        # native C++ side: real headers, real malloc, sanitizers
        self.bin_cxx = os.path.join(self.dir, 'native_cxx')
        r1 = run(['gcc', '-c', '-O1', '-DCXX_SIDE', os.path.join(ENGINE, 'vf_native.c'), '-o', os.path.join(self.dir, 'nat_cxx.o')], timeout=120)
        r2 = run(['gcc', '-c', '-O1', ent, '-o', os.path.join(self.dir, 'entries.o')], timeout=120)
        r = run(['g++'] + self.cxxflags(opt='-O1') + ['-g', '-fsanitize=address,undefined', '-fno-sanitize-recover=undefined', '-w',
                 os.path.join(HARNESS, self.src), os.path.join(self.dir, 'nat_cxx.o'), os.path.join(self.dir, 'entries.o'), '-o', self.bin_cxx], timeout=600)
        if r['rc'] != 0 or r1['rc'] != 0 or r2['rc'] != 0:
            raise BuildError('native g++ build failed for %s %s:\n%s' % (self.src, self.defs, (r['err'] + r1['err'] + r2['err'])[-3000:]))
        # native C side: the generated C itself
        self.bin_c = os.path.join(self.dir, 'native_c')
        r = run(['gcc', '-O1', '-w', '-DVF_NATIVE', '-fwrapv', '-fno-strict-aliasing', '-I' + ENGINE, self.c, os.path.join(ENGINE, 'vf_native.c'), ent, '-o', self.bin_c], timeout=600)
        if r['rc'] != 0:
            raise BuildError('gcc build of generated C failed for %s %s:\n%s' % (self.src, self.defs, r['err'][-3000:]))
        self.t_build = time.time() - t0
        self.validate(validate_seeds, seed)
        self.done = True

    def native(self, binary, entry, seed=0, replay=None, timeout=20):
        if self.miter:
            env = dict(os.environ)
            if replay is not None: env['VF_REPLAY'] = ' '.join(str(x) for x in replay)
            ra = run([self.bin_A, entry, str(seed)], timeout=timeout, env=env); rb = run([self.bin_B, entry, str(seed)], timeout=timeout, env=env)
            oa = [l for l in ra['out'].splitlines() if l.startswith('OBS') or l.startswith('ASSERT')]
            ob = [l for l in rb['out'].splitlines() if l.startswith('OBS') or l.startswith('ASSERT')]
            if ra['rc'] == 77 and rb['rc'] == 77: return 'REJECT', [], ra
            if oa != ob or ra['rc'] != rb['rc']: return 'ASSERT 16003', [], ra
            return 'PASS', [], ra
        env = dict(os.environ)
        env['ASAN_OPTIONS'] = 'detect_leaks=1:abort_on_error=0:exitcode=9'
        env['UBSAN_OPTIONS'] = 'halt_on_error=1:exitcode=9'
        if replay is not None: env['VF_REPLAY'] = ' '.join(str(x) for x in replay)
        r = run([binary, entry, str(seed)], timeout=timeout, env=env)
        out = r['out']
        reach = []
        m = re.search(r'^REACH(.*)$', out, re.M)
        if m: reach = [int(x) for x in m.group(1).split()]
        if r['timeout']: res = 'TIMEOUT'
        elif r['rc'] == 77: res = 'REJECT'
        elif r['rc'] == 0 and 'PASS' in out: res = 'PASS'
        elif r['rc'] == 1 and 'ASSERT' in out: res = 'ASSERT ' + ' '.join(re.findall(r'ASSERT (-?\d+)', out))   # every failed assertion id, in order
        elif r['rc'] == 3: res = 'STEPLIMIT'
        elif 'AddressSanitizer' in r['err'] or 'runtime error' in r['err'] or 'LeakSanitizer' in r['err']:
            mm = re.search(r'(AddressSanitizer: [-a-z]+|LeakSanitizer: [a-z ]+|runtime error: [^\n]+)', r['err'])
            res = 'SANITIZER ' + (mm.group(1) if mm else '?')
        elif r['rc'] < 0 or r['rc'] in (134, 139): res = 'CRASH rc=%d %s' % (r['rc'], r['err'][-200:].replace('\n', ' '))
        else: res = 'OTHER rc=%d' % r['rc']
        return res, reach, r

    def validate(self, nseeds, seed):
        """Translator validation: generated C (gcc) and the harness itself (g++ against /repo/include) must agree on
        every pseudo-random nondet stream."""
        agree = 0; dis = []; reach = {}
        passes = 0
        for e in self.entries:
            reach[e] = set()
            for i in range(nseeds):
                s = seed * 1000003 + i * 7919 + 1
                a, ra, _ = self.native(self.bin_cxx, e, s)
                b, rb, _ = self.native(self.bin_c, e, s)
                if a.startswith('PASS'): passes += 1
                if a.startswith('PASS') or a.startswith('ASSERT'): reach[e] |= set(ra)
                # the C side has no sanitizer: compare only when the real code ran cleanly
                if a.startswith('SANITIZER') or a.startswith('CRASH'):
                    dis.append((e, s, a, b, 'native-defect'))
                elif a == b and (ra == rb): agree += 1
                else: dis.append((e, s, a, b, 'mismatch'))
        self.diff = dict(streams=nseeds * len(self.entries), agree=agree, passes=passes,
                         mismatches=[d for d in dis if d[4] == 'mismatch'][:5], native_defects=[d for d in dis if d[4] == 'native-defect'][:5],
                         n_mismatch=sum(1 for d in dis if d[4] == 'mismatch'), n_native_defect=sum(1 for d in dis if d[4] == 'native-defect'),
                         reach={e: sorted(v) for e, v in reach.items()})

    def cleanup(self):
        shutil.rmtree(self.dir, ignore_errors=True)


def parse_cbmc_json(text):
    """returns (results list, stats dict, messages)"""
    try:
        data = json.loads(text)
    except Exception:
        # truncated output (timeout): try to salvage
        return None, {}, text[-2000:]
    results = None; stats = {}; msgs = []
    for item in data:
        if 'result' in item: results = item['result']
        if 'messageText' in item:
            t = item['messageText']
            msgs.append(t)
            m = re.search(r'(\d+) variables, (\d+) clauses', t)
            if m: stats['sat_vars'] = int(m.group(1)); stats['sat_clauses'] = int(m.group(2))
            m = re.search(r'Runtime Symex: ([\d.e+-]+)s', t)
            if m: stats['symex_s'] = float(m.group(1))
            m = re.search(r'Runtime Solver: ([\d.e+-]+)s', t)
            if m: stats['solver_s'] = stats.get('solver_s', 0) + float(m.group(1))
            m = re.search(r'size of program expression: (\d+) steps', t)
            if m: stats['program_steps'] = int(m.group(1))
            m = re.search(r'Generated (\d+) VCC\(s\), (\d+) remaining after simplification', t)
            if m: stats['vccs'] = int(m.group(1)); stats['vccs_remaining'] = int(m.group(2))
        if 'cProverStatus' in item: stats['status'] = item['cProverStatus']
    return results, stats, '\n'.join(msgs[-15:])

def classify(desc, prop):
    m = re.match(r'vf_assert \(*(?:\(uint32_t\))?\(*(\d+)', desc)
    if m: return ('assert', int(m.group(1)))
    m = re.match(r'vf_reach \(*(?:\(uint32_t\))?\(*(\d+)', desc)
    if m: return ('reach', int(m.group(1)))
    m = re.match(r'vf_fail \(*(\d+)\)* (.*)', desc)
    if m: return ('fail', int(m.group(1)), m.group(2))
    if '.unwind.' in prop or 'unwinding assertion' in desc: return ('unwind', prop)
    if '.recursion' in prop or 'recursion unwinding assertion' in desc: return ('unwind', prop)
    return ('generic', desc)

def cbmc_cmd(b, q, unwindset, extra=()):
    K, SZ = q.arena
    cmd = ['cbmc', b.c, '-I' + ENGINE, '-DVF_ARENA_K=%d' % K, '-DVF_ARENA_SZ=%d' % SZ, '-DVF_ARENA_TAIL',
           '--function', 'vf_main_' + q.entry, '--unwind', str(q.unwind), '--unwinding-assertions',
           '--drop-unused-functions', '--slice-formula', '--no-malloc-may-fail', '--json-ui', '--verbosity', '8']
    if unwindset: cmd += ['--unwindset', ','.join('%s:%d' % kv for kv in sorted(unwindset.items()))]
    if q.object_bits: cmd += ['--object-bits', str(q.object_bits)]
    cmd += list(q.extra_cbmc) + list(extra)
    return cmd

def loop_of(prop):
    # "vf_memmove.unwind.1" -> "vf_memmove.1"
    m = re.match(r'(.*)\.unwind\.(\d+)$', prop)
    if m: return '%s.%s' % (m.group(1), m.group(2))
    m = re.match(r'(.*)\.recursion$', prop)
    if m: return m.group(1)
    return None

class MemBudget:
    """Queries declare a memory cap (ulimit); the sum of the caps of running queries stays below the machine's RAM."""
    def __init__(self, total_gb):
        self.total, self.used, self.cv = total_gb, 0.0, threading.Condition()
    def acquire(self, gb):
        gb = min(gb, self.total)
        with self.cv:
            while self.used + gb > self.total: self.cv.wait()
            self.used += gb
        return gb
    def release(self, gb):
        with self.cv:
            self.used -= gb; self.cv.notify_all()
def _ram_gb():
    try:
        for l in open('/proc/meminfo'):
            if l.startswith('MemAvailable'): return int(l.split()[1]) / (1 << 20)
    except Exception: pass
    return 16.0
BUDGET = MemBudget(max(4.0, float(os.environ.get('VERIF_MEM_GB', '0')) or _ram_gb() * 0.85))

def decide(b, q, hints, unwind_cap=300):
    gb = BUDGET.acquire(q.mem_gb)
    try:
        return _decide(b, q, hints, q.unwind_cap)
    finally:
        BUDGET.release(gb)

def _decide(b, q, hints, unwind_cap=300):
    """Run CBMC for one query; automatically raise per-loop unwinding bounds that are too small (never reports
    success with a failed unwinding assertion)."""
    unwindset = dict(hints.get(q.name, {})); unwindset.update(q.unwindset)
    t0 = time.time(); attempts = 0; peak = 0; capmul = 1
    total = {'symex_s': 0.0, 'solver_s': 0.0}
    while True:
        attempts += 1
        left = q.timeout - (time.time() - t0)
        if left <= 5: return dict(verdict='inconclusive', reason='timeout', wall=time.time() - t0, attempts=attempts, unwindset=unwindset)
        cap = max(2.5 * q.mem_gb, 8) * capmul      # address-space cap well above the expected RSS used for scheduling
        r = run(['/usr/bin/time', '-f', 'VF_RSS %M'] + cbmc_cmd(b, q, unwindset), timeout=left, mem_gb=cap)
        m = re.search(r'VF_RSS (\d+)', r['err'])
        if m: peak = max(peak, int(m.group(1)) // 1024)
        if r['timeout']: return dict(verdict='inconclusive', reason='timeout', wall=time.time() - t0, attempts=attempts, unwindset=unwindset, rss_mb=peak)
        results, stats, tail = parse_cbmc_json(r['out'])
        for k in ('symex_s', 'solver_s'): total[k] += stats.get(k, 0)
        if results is None:
            reason = 'out of memory' if ('bad_alloc' in r['err'] or 'Out of memory' in r['out'] or r['rc'] in (-9, 137, -6, 134)) else 'cbmc error rc=%s: %s' % (r['rc'], (tail or r['err'])[-600:])
            return dict(verdict='inconclusive', reason=reason, wall=time.time() - t0, attempts=attempts, unwindset=unwindset, rss_mb=peak)
        if any(p['status'] == 'ERROR' for p in results) or 'ran out of memory' in r['out']:
            # the SAT back end hit the address-space cap: retry once with twice the cap, then give up (inconclusive, never success)
            if capmul == 1 and cap * 2 <= BUDGET.total:
                capmul = 2; continue
            return dict(verdict='inconclusive', reason='solver out of memory under a %.0f GB cap' % cap, wall=time.time() - t0, attempts=attempts, unwindset=unwindset, rss_mb=peak)
        raised = False
        # a counterexample found under the current bounds is genuine (unwinding only cuts paths): no need to chase larger bounds
        real = any(p['status'] == 'FAILURE' and classify(p.get('description', ''), p.get('property', ''))[0] in ('assert', 'generic', 'fail')
                   and not (classify(p.get('description', ''), p.get('property', ''))[0] == 'fail' and classify(p.get('description', ''), p.get('property', ''))[1] == 5)
                   for p in results)
        for p in results:
            if real: break
            if p['status'] == 'FAILURE':
                c = classify(p.get('description', ''), p.get('property', ''))
                if c[0] == 'unwind':
                    lp = loop_of(p['property'])
                    cur = unwindset.get(lp, q.unwind)
                    if lp and cur < unwind_cap:
                        unwindset[lp] = min(unwind_cap, max(cur + cur // 2, cur + 4)); raised = True   # x1.5: over-unwinding is what costs memory
        if raised: continue
        stats.update(total)
        return dict(verdict='decided', results=results, stats=stats, wall=time.time() - t0, attempts=attempts, unwindset=unwindset, rss_mb=peak)

def extract_nondets(trace):
    vals = []
    for st in trace:
        if st.get('stepType') == 'assignment':
            lhs = st.get('lhs', '')
            if st.get('hidden'): continue        # declaration-time initialisation of the return-value symbol, not a draw
            if re.match(r'return_value_nondet_u(8|16|32|64)(\$\d+)?$', lhs):
                v = st.get('value', {})
                d = v.get('data')
                if d is None: continue
                try: vals.append(int(d))
                except ValueError:
                    b = v.get('binary')
                    vals.append(int(b, 2) if b else 0)
    return vals

def get_trace(b, q, unwindset, prop):
    # no --slice-formula here: slicing drops the nondet draws the property does not depend on, and the replay stream must
    # contain every draw in program order
    cmd = [c for c in cbmc_cmd(b, q, unwindset, extra=['--property', prop, '--trace']) if c != '--slice-formula']
    # the unsliced formula is larger than the one that was decided: generous address-space cap, scheduled through the memory budget
    gb = BUDGET.acquire(min(2 * q.mem_gb, BUDGET.total))
    try:
        r = run(cmd, timeout=max(q.timeout, 900), mem_gb=min(max(5 * q.mem_gb, 16), BUDGET.total))
    finally:
        BUDGET.release(gb)
    try: data = json.loads(r['out'])
    except Exception: return None
    for item in data:
        if 'result' in item:
            for p in item['result']:
                if p.get('property') == prop and p.get('status') == 'FAILURE' and 'trace' in p:
                    return extract_nondets(p['trace'])
    return None

# ------------------------------------------------------------------------------------------------ orchestration
ASSERT_TEXT = {}   # filled from plans: id -> text

def load_json(path, default):
    try: return json.load(open(path))
    except Exception: return default

def base_hash():
    return sha(tree_hash(os.path.join(REPO, 'include')), tree_hash(HARNESS), tree_hash(ENGINE, exts=('.py', '.h', '.c')))

def prop_of(aid):
    return 'C%02d' % (aid // 1000)

class Checker:
    def __init__(self, pid, tier, seed, queries, use_store=True, keep=False, validate_seeds=None, only=None):
        self.pid, self.tier, self.seed = pid, tier, seed
        self.queries = [q for q in queries if not only or re.search(only, q.name)]
        self.use_store = use_store and not os.environ.get('VERIF_NO_STORE')
        self.keep = keep
        self.validate_seeds = validate_seeds if validate_seeds is not None else (40 if tier == 'quick' else 150)
        self.hints_path = os.path.join(VERIF, 'unwind_hints.json')
        self.hints = load_json(self.hints_path, {})
        self.kf_all = load_json(os.path.join(VERIF, 'known_findings.json'), {'findings': []}).get('findings', [])
        self.base = base_hash()
        self.builds = {}
        self.rows = []
        self.violations = []
        self.inconclusive = []
        self.known_lines = []
        self.kf_defs = {}
        self.t0 = time.time()

    # ---- known findings: replayed natively first; a finding that still reproduces is excluded from the queries by its
    # predicate (compiled in through its define) so that every other violation of the property is still reported.
    def prepare_known(self):
        for kf in self.kf_all:
            if kf.get('status') != 'open': continue
            if self.pid not in kf.get('properties', []): continue
            rp = kf['replay']
            q = Query('kf_' + kf['id'], rp['src'], rp['entry'], defs=rp.get('defs', {}), std=rp.get('std', 'c++17'))
            b = Build(('kf', kf['id']), q, [rp['entry']], {})
            try:
                os.makedirs(b.dir, exist_ok=True)
                b.build(0, 0)
                res, _, r = b.native(b.bin_cxx, rp['entry'], replay=rp['values'])
            except BuildError as e:
                res = 'BUILD-ERROR ' + str(e)[:200]
            finally:
                if not self.keep: b.cleanup()
            if res.startswith('ASSERT') or res.startswith('SANITIZER') or res.startswith('CRASH'):
                self.known_lines.append('KNOWN-FINDING: property=%s %s [%s; replay %s]' % (self.pid, kf['what'], res, kf['id']))
                if kf.get('define'): self.kf_defs[kf['define']] = ''
            else:
                log('note: known finding %s no longer reproduces natively (%s): its exclusion is NOT applied' % (kf['id'], res))

    def store_key(self, q):
        return sha(self.base, q.ident(), json.dumps(sorted(self.kf_defs.items())))

    def run_all(self):
        os.makedirs(STORE, exist_ok=True)
        self.prepare_known()
        # group into builds
        groups = {}
        for q in self.queries:
            groups.setdefault(q.build_key(), []).append(q)
        pending = []
        for key, qs in groups.items():
            cached = {}
            if self.use_store:
                for q in qs:
                    p = os.path.join(STORE, self.store_key(q) + '.json')
                    if os.path.exists(p):
                        try: cached[q.name] = json.load(open(p))
                        except Exception: pass
            todo = [q for q in qs if q.name not in cached]
            for q in qs:
                if q.name in cached:
                    row = cached[q.name]; row['reused'] = True
                    self.rows.append(row)
            if todo:
                b = Build(key, todo[0], [q.entry for q in todo], self.kf_defs)
                self.builds[key] = b
                pending.append((b, todo))
        lock = threading.Lock()
        with cf.ThreadPoolExecutor(max_workers=NCPU) as ex:
            futs = []
            def do_build(b, todo):
                try:
                    b.build(self.validate_seeds, self.seed)
                except BuildError as e:
                    b.error = str(e)
                    for q in todo:
                        with lock:
                            self.rows.append(dict(name=q.name, verdict='inconclusive', reason='build error: ' + b.error[-1500:], entry=q.entry, src=q.src))
                    return
                fs = [ex.submit(self.do_query, b, q) for q in todo]
                for f in fs:
                    pass
                return fs
            bf = [ex.submit(do_build, b, todo) for b, todo in pending]
            qf = []
            for f in bf:
                r = f.result()
                if r: qf += r
            for f in qf: f.result()
        for key, b in self.builds.items():
            if not self.keep: b.cleanup()
        try: json.dump(self.hints, open(self.hints_path + '.new', 'w'), indent=0, sort_keys=True)
        except Exception: pass

    def do_query(self, b, q):
        try:
            row = self._do_query(b, q)
        except Exception as e:
            import traceback
            row = dict(name=q.name, verdict='inconclusive', reason='driver exception: %s' % traceback.format_exc()[-1500:], entry=q.entry, src=q.src)
        self.rows.append(row)
        if self.use_store and row.get('verdict') == 'decided' and not row.get('failed'):
            try: json.dump(row, open(os.path.join(STORE, self.store_key(q) + '.json'), 'w'))
            except Exception: pass
        log('  [%s] %-44s %-12s %6.1fs %5s MB  %s' % (self.pid, q.name, row.get('verdict'), row.get('wall', 0), row.get('rss_mb', '?'),
                                                   (row.get('reason') or '')[:100] if row.get('verdict') != 'decided' else
                                                   ('FAILED: ' + ', '.join(str(f['what']) for f in row['failed'])[:160] if row.get('failed') else 'ok')))
        return row

    def _do_query(self, b, q):
        d = decide(b, q, self.hints)
        info = b.info.get('roots', {}).get(q.entry, {})
        row = dict(name=q.name, src=q.src, entry=q.entry, defs=q.defs, std=q.std, opt=q.opt, arena=list(q.arena), unwind=q.unwind,
                   unwindset=d.get('unwindset'), wall=round(d['wall'], 2), attempts=d.get('attempts'), rss_mb=d.get('rss_mb'),
                   functions_encoded=info.get('functions', []), ir_instructions=info.get('ir_instructions'),
                   externs=b.info.get('externs', []), symbolic=q.symbolic, bounds=q.bounds, note=q.note,
                   validation=dict(streams=b.diff.get('streams', 0), agree=b.diff.get('agree', 0), passes=b.diff.get('passes', 0),
                                   n_mismatch=b.diff.get('n_mismatch', 0), n_native_defect=b.diff.get('n_native_defect', 0),
                                   mismatches=b.diff.get('mismatches', []), native_defects=b.diff.get('native_defects', [])),
                   reused=False)
        if d['verdict'] != 'decided':
            row.update(verdict='inconclusive', reason=d.get('reason'))
            return row
        if d.get('unwindset') and d['unwindset'] != self.hints.get(q.name):
            self.hints[q.name] = d['unwindset']
        st = d['stats']
        row.update(stats=st)
        asserts = {}; reach = {}; failed = []; bound = []
        nprops = 0
        unknown = 0
        for p in d['results']:
            nprops += 1
            c = classify(p.get('description', ''), p.get('property', ''))
            if p['status'] not in ('SUCCESS', 'FAILURE'):
                unknown += 1      # CBMC leaves checks after a failed one at the same location undecided
                continue
            ok = p['status'] == 'SUCCESS'
            if c[0] == 'assert':
                a = asserts.setdefault(c[1], dict(n=0, failed=0, props=[]))
                a['n'] += 1
                if not ok: a['failed'] += 1; a['props'].append(p['property'])
            elif c[0] == 'reach':
                reach[c[1]] = reach.get(c[1], False) or (not ok)
            elif c[0] == 'fail':
                if not ok:
                    if c[1] == 5: bound.append(c[2])
                    else: failed.append(dict(kind='env', code=c[1], what=c[2], prop=p['property']))
            elif c[0] == 'unwind':
                if not ok and not any(pp['status'] == 'FAILURE' and classify(pp.get('description', ''), pp.get('property', ''))[0] in ('assert', 'generic') for pp in d['results']):
                    # A loop runs past the bound derived from the scope (cap reached).  In partitions where the loops behind a
                    # check must never be entered (capacity-limit errors) this is a behaviour change: replay it natively.
                    vals = get_trace(b, q, d['unwindset'], p['property']) if b.bin_cxx else None
                    res = b.native(b.bin_cxx, q.entry, replay=vals)[0] if vals is not None else 'no-trace'
                    if res.startswith(('ASSERT', 'SANITIZER', 'CRASH', 'STEPLIMIT', 'TIMEOUT')):
                        failed.append(dict(kind='unwind', what='loop runs past its bound (%s)' % p['property'], prop=p['property'], values=vals, replay=res, relevant=True))
                    else:
                        bound.append('unwinding bound reached at cap: ' + p['property'])
            else:
                if not ok: failed.append(dict(kind='generic', what=c[1], prop=p['property']))
        if 'stores' in q.hooks:
            # static IR fact (graph search over the emitted functions, not a solver verdict): the lowered library code
            # references no mutable global / function-local static (harness ledgers live in namespace vf or are file-static g_*)
            libg = [g for g in b.info.get('mutable_globals', []) if not re.match(r'(_ZL\d+g_|_ZN2vfL|_ZZ\d*h_)', g)]
            row['library_mutable_globals'] = libg
            if libg: failed.append(dict(kind='static', what='library code references mutable globals: %s' % libg[:4], prop='static'))
        for aid, a in sorted(asserts.items()):
            if a['failed']:
                if aid // 1000 == 99: bound.append('harness bound assertion %d' % aid)
                else: failed.append(dict(kind='assert', id=aid, what='assert %d' % aid, prop=a['props'][0]))
        row.update(cbmc_properties=nprops, asserts={str(k): v['n'] for k, v in asserts.items()}, reach={str(k): v for k, v in reach.items()},
                   failed=failed, bound_hits=bound)
        unreached = [k for k, v in reach.items() if not v and k not in q.optional_reach]
        if q.expect_reach is not None:
            unreached += [k for k in q.expect_reach if k not in reach]
        # one representative per kind of generic failure is enough (a wild write trips dozens of pointer checks)
        seen = set(); ded = []
        for f in failed:
            k = (f['kind'], f.get('id'), re.sub(r' in .*', '', str(f['what'])) if f['kind'] == 'generic' else f['what'])
            if k in seen: continue
            seen.add(k); ded.append(f)
        failed = ded
        row['failed'] = failed
        if unknown and not failed:
            row.update(verdict='inconclusive', reason='%d properties left UNKNOWN by CBMC' % unknown)
        elif bound:
            row.update(verdict='inconclusive', reason='bound hit: ' + '; '.join(sorted(set(bound)))[:300])
        elif unreached or not reach:
            row.update(verdict='inconclusive', reason='vacuity: reach markers not reachable: %s' % unreached)
        elif b.diff.get('n_mismatch', 0):
            row.update(verdict='inconclusive', reason='ENCODING-MISMATCH in translator validation: %s' % b.diff['mismatches'][:2])
        else:
            row.update(verdict='decided')
        # counterexamples -> native replay
        if failed:
            for f in failed:
                if 'relevant' not in f: f['relevant'] = self.relevant(f)
            rel = [f for f in failed if f['relevant']]
            rel.sort(key=lambda f: 0 if f['kind'] == 'assert' else 1)
            for f in rel[:4]:
                if 'replay' in f: continue
                if f['kind'] == 'static':
                    f['replay'] = 'CRASH static-fact'; f['values'] = []; continue
                vals = get_trace(b, q, d['unwindset'], f['prop'])
                f['values'] = vals
                if vals is None:
                    f['replay'] = 'no-trace'; continue
                res, _, r = b.native(b.bin_cxx, q.entry, replay=vals)
                f['replay'] = res
                resc, _, _ = b.native(b.bin_c, q.entry, replay=vals)
                f['replay_c'] = resc
        return row

    def relevant(self, f):
        if f['kind'] == 'assert': return prop_of(f['id']) == self.pid
        return True   # undefined behaviour / memory-safety / terminate void every property observed through this step

    def summarize(self):
        wall = time.time() - self.t0
        decided = [r for r in self.rows if r.get('verdict') == 'decided']
        incon = [r for r in self.rows if r.get('verdict') != 'decided']
        viol = []; unconfirmed = []
        pnum = int(self.pid[1:])
        def confirms(f):
            rp = f.get('replay') or ''
            # the native run stops at its first failing assertion: any failure of this property (or a sanitizer report / crash /
            # runaway loop) on the solver's input confirms the counterexample
            if rp.startswith('ASSERT'):
                ids = [int(x) for x in rp.split()[1:]]
                if any(a // 1000 == pnum for a in ids if a > 0): return True
                if any(a < 0 for a in ids): return f['kind'] != 'assert'
                return False
            if rp.startswith(('SANITIZER', 'CRASH', 'STEPLIMIT', 'TIMEOUT')): return True
            # an IR-level 'unreachable' / terminate in straight-line code may not crash natively: accepted when the generated C
            # reproduces it deterministically on the same input
            if f['kind'] == 'env' and (f.get('replay_c') or '').startswith('ASSERT -'): return True
            return False
        for r in self.rows:
            rel = [f for f in (r.get('failed') or []) if f.get('relevant')]
            if not rel: continue
            tried = [f for f in rel if 'replay' in f]
            ok = [f for f in tried if confirms(f)]
            if ok: viol.append((r, ok[0]))
            else:
                for f in (tried or rel[:1]): unconfirmed.append((r, f))
        os.makedirs(os.path.join(VERIF, 'replays', self.pid), exist_ok=True)
        lines = []
        n = 0
        for r, f in viol:
            n += 1
            path = os.path.join(VERIF, 'replays', self.pid, '%s.%d.json' % (r['name'], n))
            json.dump(dict(property=self.pid, query=r['name'], src=r['src'], entry=r['entry'], defs=r['defs'], std=r['std'],
                           failed=f['what'], values=f.get('values'), native_outcome=f.get('replay'), generated_c_outcome=f.get('replay_c')),
                      open(path, 'w'), indent=1)
            lines.append('VIOLATION property=%s replay=%s' % (self.pid, path))
            log('    %s: %s native=%s' % (r['name'], f['what'], f.get('replay')))
        functions = sorted({fn for r in self.rows for fn in r.get('functions_encoded', [])})
        nontrivial = [r for r in decided if any(int(k) // 1000 == int(self.pid[1:]) for k in r.get('asserts', {}))]
        samples = []
        for r in (decided[:3] + incon[:2]):
            samples.append(dict(query=r['name'], harness=r.get('src'), entry=r.get('entry'), configuration=r.get('defs'), std=r.get('std'),
                                symbolic_variables=r.get('symbolic'), bounds=r.get('bounds'), unwindset=r.get('unwindset'),
                                cbmc_properties=r.get('cbmc_properties'), assertions_by_id=r.get('asserts'), reach_markers=r.get('reach'),
                                verdict=r.get('verdict'), reason=r.get('reason'), solver=r.get('stats'), wall_s=r.get('wall'), rss_mb=r.get('rss_mb')))
        ev = dict(property_id=self.pid, tier=self.tier, seed=self.seed, level='translation_validation' if self.pid == 'C16' else 'model_checking',
                  coverage=dict(
                      # symbolic states: SSA steps of the unrolled programs CBMC executed symbolically; transitions: verification
                      # conditions generated from them (each one a solver obligation over all values of the symbolic variables)
                      states=max(1, sum((r.get('stats') or {}).get('program_steps', 0) for r in decided)),
                      transitions=max(1, sum((r.get('stats') or {}).get('vccs', 0) for r in decided)),
                      programs=len(decided), disagreements_checked=len(viol) + len(unconfirmed),
                      evaluations=len(self.rows), distinct_nontrivial=len(nontrivial),
                      store_note='queries already decided on the identical tree (sha256 over /repo/include, harness/, engine/, query definition) are taken from .work/store and marked reused; their figures are those of the run that decided them',
                      rule='one evaluation = one CBMC query (harness entry x configuration x state class) over symbolic state words, element values, positions, counts; non-trivial = decided, every reach marker reachable (vacuity witness), at least one assertion of this property discharged',
                      samples=samples,
                      queries_decided=len(decided), queries_inconclusive=len(incon), queries_reused_from_store=sum(1 for r in self.rows if r.get('reused')),
                      inconclusive=[dict(query=r['name'], reason=r.get('reason')) for r in incon],
                      cbmc_properties_checked=sum(r.get('cbmc_properties', 0) or 0 for r in decided),
                      assertions_discharged={k: sum((r.get('asserts', {}) or {}).get(k, 0) for r in decided) for k in sorted({k for r in decided for k in (r.get('asserts') or {})})},
                      functions_encoded=functions, functions_encoded_count=len(functions),
                      solver_seconds=round(sum((r.get('stats') or {}).get('solver_s', 0) for r in self.rows), 1),
                      symex_seconds=round(sum((r.get('stats') or {}).get('symex_s', 0) for r in self.rows), 1),
                      cpu_seconds_queries=round(sum(r.get('wall', 0) or 0 for r in self.rows), 1),
                      peak_rss_mb=max([r.get('rss_mb') or 0 for r in self.rows] or [0]),
                      traces_validated_against_impl=sum((r.get('validation') or {}).get('agree', 0) for r in self.rows),   # reused queries keep the counts of the run that decided them (same tree hash)
                      translator_validation=dict(streams=sum((r.get('validation') or {}).get('streams', 0) for r in self.rows),
                                                 mismatches=sum((r.get('validation') or {}).get('n_mismatch', 0) for r in self.rows)),
                      queries=[dict(name=r['name'], verdict=r.get('verdict'), wall_s=r.get('wall'), rss_mb=r.get('rss_mb'), reused=r.get('reused', False),
                                    sat_vars=(r.get('stats') or {}).get('sat_vars'), solver_s=(r.get('stats') or {}).get('solver_s'),
                                    unwindset=r.get('unwindset'), bounds=r.get('bounds'), failed=[f['what'] for f in (r.get('failed') or [])]) for r in sorted(self.rows, key=lambda r: r['name'])],
                      known_findings=self.known_lines, unconfirmed_counterexamples=[dict(query=r['name'], what=f['what'], native=f.get('replay')) for r, f in unconfirmed],
                      exhaustive=False),
                  assumptions=ASSUMPTIONS, wall_s=round(wall, 1), violations=len(viol))
        os.makedirs(os.path.join(VERIF, 'evidence'), exist_ok=True)
        json.dump(ev, open(os.path.join(VERIF, 'evidence', self.pid + '.json'), 'w'), indent=1)
        for l in self.known_lines: print(l)
        for l in lines: print(l)
        print('%s tier=%s: %d queries, %d decided, %d inconclusive, %d violations, %d unconfirmed counterexamples, %.0fs wall'
              % (self.pid, self.tier, len(self.rows), len(decided), len(incon), len(viol), len(unconfirmed), wall))
        # thorough tier: a query that is NOT part of the quick plan and ran out of its time / memory budget is reported and listed in the
        # evidence as undecided (outside the claim) but does not turn the whole run into "no verdict"; every other cause, and every
        # query of the quick plan, keeps exit 2. A budget overrun is never counted as decided.
        core = getattr(self, 'core_names', None)
        def soft(r):
            why = r.get('reason') or ''
            return core is not None and r['name'] not in core and (why == 'timeout' or why.startswith('solver out of memory'))
        hard = [r for r in incon if not soft(r)]
        for r in incon: print('  INCONCLUSIVE%s %s: %s' % (' (thorough-only query over its budget: outside the claim)' if soft(r) else '', r['name'], (r.get('reason') or '')[:300]))
        for r, f in unconfirmed: print('  UNCONFIRMED (encoding suspect, not a violation) %s: %s native=%s' % (r['name'], f['what'], f.get('replay')))
        if viol: return 1
        if hard or unconfirmed: return 2
        return 0

ASSUMPTIONS = [
    'code generation is that of clang 14 at the stated -std/-O level (GCC/MSVC builds are outside the claim)',
    'engine/ir2c.py translates LLVM IR to C faithfully (validated on every run: generated C vs native harness on pseudo-random nondet streams)',
    'CBMC 6.11 bit-precise semantics of the generated C; default SAT back end (minisat)',
    'heap = static arena (K blocks x SZ bytes, tail-aligned, havocked on free); allocation never fails except through injected faults',
    'std::overflow_error/out_of_range constructors are no-ops; libstdc++ red-black tree primitives replaced by an unbalanced BST stub',
    'every claim is bounded by the sizes/capacities/counts listed per query; unwinding assertions prove the loop bounds are sufficient',
]

def main():
    import argparse, importlib.util
    ap = argparse.ArgumentParser()
    ap.add_argument('pid', nargs='?')
    ap.add_argument('--tier', default=os.environ.get('VERIF_TIER', 'quick'))
    ap.add_argument('--replay')
    ap.add_argument('--no-store', action='store_true')
    ap.add_argument('--keep', action='store_true')
    ap.add_argument('--only')
    ap.add_argument('--list', action='store_true')
    ap.add_argument('--validate-seeds', type=int)
    a = ap.parse_args()
    seed = int(os.environ.get('VERIF_SEED', '1') or 1)
    spec = importlib.util.spec_from_file_location('plans', os.path.join(VERIF, 'plans.py'))
    plans = importlib.util.module_from_spec(spec); spec.loader.exec_module(plans)
    if a.replay:
        return replay_file(a.replay)
    if a.pid not in plans.PROPERTIES:
        print('unknown property', a.pid); return 2
    qs = plans.plan(a.pid, a.tier, Query)
    if a.list:
        for q in qs: print(q.name, q.src, q.entry, q.defs)
        return 0
    ck = Checker(a.pid, a.tier, seed, qs, use_store=not a.no_store, keep=a.keep, validate_seeds=a.validate_seeds, only=a.only)
    if a.tier != 'quick': ck.core_names = set(q.name for q in plans.plan(a.pid, 'quick', Query))
    ck.run_all()
    extra = getattr(plans, 'extra_checks', None)
    rc = ck.summarize()
    return rc

def replay_file(path):
    d = json.load(open(path))
    q = Query('replay', d['src'], d['entry'], defs=d.get('defs', {}), std=d.get('std', 'c++17'))
    b = Build(('replay', path), q, [d['entry']], {})
    os.makedirs(b.dir, exist_ok=True)
    try:
        b.build(0, 0)
        res, reach, r = b.native(b.bin_cxx, d['entry'], replay=d['values'])
        print('native outcome:', res)
        print(r['err'][-3000:])
        return 1 if not res.startswith('PASS') and not res.startswith('REJECT') else 0
    finally:
        b.cleanup()

if __name__ == '__main__':
    sys.exit(main())
